"""Process-model scenarios shared by C01, C03, C05, C06, C07, C08, C11, C18, C20 and the oracles that several of
those monitors apply to a returned ProcessModel."""
import math
from fractions import Fraction

from . import gen, guards

EPS = 2.0**-52
KINDS = [
    "ideal_isothermal_process",
    "ideal_non_isothermal_process",
    "non_ideal_isothermal_process",
    "non_ideal_non_isothermal_process",
]
SERIES = [
    "feed_temperature", "feed_compositions", "permeate_composition", "permeate_temperature", "permeate_pressure",
    "feed_mass", "partial_fluxes", "permeances", "time", "feed_evaporation_heat", "permeate_condensation_heat",
]
SOFT_BUDGET = 20000


class Scenario:
    """one process-model call with everything needed to repeat or vary it"""

    def __init__(self, rng, kinds=None, coarse=False, modes=None, models=("NRTL", "UNIQUAC"), max_steps=30,
                 p_synth=0.35, basis=None, allow_program=True, nonideal_orders=1, builtin_only=False, default_orders=0.0, long_runs=0.01, narrow_ints=True):
        from pyvaporation.conditions import Conditions
        from pyvaporation.pervaporation import Pervaporation

        self.kind = rng.choice(kinds or KINDS)
        self.ideal = self.kind.startswith("ideal")
        self.isothermal = "non_isothermal" not in self.kind
        self.mix, self.mdesc = gen.gen_mixture(rng, 0.0 if builtin_only else p_synth, minimal=0.2 if len(models) == 2 else 0.0)
        self.model = gen.pick_model(rng, self.mix, models)
        if rng.random() < 0.4:
            self.model = gen.fresh_str(self.model)
        self.membrane = gen.gen_membrane(rng, self.mix)
        if rng.random() < 0.05 and not builtin_only:
            import pickle

            # objects that went through pickle (multiprocessing, joblib, a cache): equal values, new identities
            import copy

            self.mix, self.membrane = pickle.loads(pickle.dumps((self.mix, self.membrane))) if rng.random() < 0.5 else copy.deepcopy((self.mix, self.membrane))
        self.pv = Pervaporation(self.membrane, self.mix)
        self.t0 = gen.pick_temperature(rng, 283.0, 390.0)
        self.x0 = gen.pooled_composition(rng) if (basis in (None, "weight") and rng.random() < 0.15) else gen.gen_composition(rng, self.mix, basis=basis, edge=0.02)
        self.mode = rng.choice(modes or ["V", "T", "T", "P", "Psmall", "P0"])
        try:
            self.tp, self.pp = gen.gen_permeate(rng, self.mode, self.mix, self.t0, self.x0, self.model)
        except Exception:
            self.mode, self.tp, self.pp = "V", None, None
        self.area = gen.loguniform(rng, 1e-3, 1e2)
        self.m0 = gen.loguniform(rng, 1e-2, 1e3)
        self.numpy_inputs = rng.random() < 0.1
        if rng.random() < 0.12:
            # plain Python ints are legitimate numbers for a temperature, an area or an amount
            self.t0 = int(round(self.t0))
            if rng.random() < 0.5:
                self.area, self.m0 = rng.randint(1, 20), rng.randint(1, 200)
        self.narrow = None
        if self.numpy_inputs and rng.random() < 0.5 and narrow_ints:
            # narrow integer numpy scalars (a uint8 / int16 column) next to Python-int step lengths: the values are exact, only
            # the dtype is narrow; the library must not do its arithmetic in that dtype (area x step length may exceed it).
            # Narrow FLOAT dtypes are not generated: the pinned library itself computes the first step in the dtype of a
            # float32 / float16 feed amount (p * feed_mass[0]), i.e. the caller gets the float32 arithmetic he asked for.
            self.narrow = "smallint"
            self.area, self.m0 = rng.randint(1, 100), rng.randint(1, 1000)
        self.n = rng.randint(1, max_steps)
        if self.ideal and not coarse and long_runs and rng.random() < long_runs:
            self.n = rng.randint(1001, 1500)  # a long run (step-count dependent code paths)
        elif not coarse and long_runs and rng.random() < 0.05:
            # a medium run that depletes the feed noticeably at every step (between the short runs and the long, fine ones)
            self.n = rng.randint(31, 400 if self.ideal else 120)
        self.precision = gen.loguniform(rng, 1e-6, 1e-3)
        self.coarse = coarse
        # non-ideal ingredients
        self.curve_set = self.cs_desc = None
        self.initial_permeances = None
        self.orders = {}
        self.include_zero = False
        if not self.ideal:
            n_curves = rng.choice([1, 1, 2, 3])
            self.curve_set, self.cs_desc = gen.gen_curve_set(rng, self.mix, n_curves=n_curves)
            if rng.random() < 0.25 and n_curves == 1:
                self.t0 = self.curve_set.diffusion_curves[0].feed_temperature  # modelling at the curve's temperature
            self.orders = {
                "n_first": rng.randint(0, nonideal_orders), "n_second": rng.randint(0, nonideal_orders),
                "m_first": rng.randint(0, nonideal_orders), "m_second": rng.randint(0, nonideal_orders),
            }
            self.include_zero = rng.random() < 0.2
            if default_orders and rng.random() < default_orders:
                for key in rng.sample(sorted(self.orders), rng.randint(1, 4)):
                    self.orders[key] = None  # the library's default search
            if rng.random() < 0.5:
                u1, u2 = rng.choice(gen.UNITS), rng.choice(gen.UNITS)
                self.initial_permeances = (
                    gen.permeance_in_units(gen.gen_permeance_value(rng, 1e-4, 0.5), u1, self.mix.first_component),
                    gen.permeance_in_units(gen.gen_permeance_value(rng, 1e-4, 0.5), u2, self.mix.second_component),
                )
        # step length from the initial total flux: the first step removes the fraction f0 of the feed
        self.f0 = gen.loguniform(rng, 0.1, 10.0) if coarse else min(gen.loguniform(rng, 1e-5, 0.03), 0.6 / self.n)
        if not coarse and rng.random() < 0.08:
            self.f0 = gen.loguniform(rng, 1e-12, 1e-8)  # a very fine discretisation: consecutive states differ in the last digits only
        if not coarse and not self.isothermal:
            self.f0 = min(self.f0, 0.004)
        self.dt = None
        self.setup_error = None
        try:
            with guards.budget(SOFT_BUDGET):
                perms = None
                if not self.ideal:
                    perms = self._initial_permeances_for_step()
                j = gen.initial_total_flux(self.pv, self.t0, self.x0, self.tp, self.pp, self.model, perms)
            jt = float(j[0]) + float(j[1])
            if not (jt > 0 and math.isfinite(jt)):
                raise ValueError("non-positive initial flux")
            self.dt = self.f0 * self.m0 / (jt * self.area)
            if self.narrow == "smallint":
                dt_int = rng.randint(1, 48)  # whole hours
                m0_needed = dt_int * jt * self.area / self.f0
                if 1 <= m0_needed <= 30000:
                    self.m0 = max(1, int(round(m0_needed)))
                    self.dt = dt_int
                    self.f0 = dt_int * jt * self.area / self.m0
        except (Exception, guards.BudgetExceeded) as e:
            self.setup_error = repr(e)
            self.dt = gen.loguniform(rng, 1e-4, 1.0)
        self.program = None
        if allow_program and rng.random() < 0.45:
            self.program = gen.gen_program(rng, self.t0, self.dt * self.n)
        if self.numpy_inputs:
            import numpy

            # numpy scalars (what array slicing / pandas hand to user code) are legitimate numbers as well
            if isinstance(self.dt, int):
                self.area, self.t0, self.m0 = numpy.float64(self.area), numpy.float64(self.t0), numpy.float64(self.m0)
            else:
                self.area, self.t0, self.m0, self.dt = numpy.float64(self.area), numpy.float64(self.t0), numpy.float64(self.m0), numpy.float64(self.dt)
        area_arg, m0_arg = self.area, self.m0
        if self.narrow == "smallint":
            area_arg, m0_arg = numpy.uint8(int(self.area)), numpy.int16(int(self.m0))
        self.plot_after = rng.random() < 0.1
        if rng.random() < 0.06:
            self.pv = gen.retargeted(rng, self.membrane, self.mix)
        self.conditions = Conditions(
            membrane_area=area_arg, initial_feed_temperature=self.t0, initial_feed_amount=m0_arg,
            initial_feed_composition=self.x0, permeate_temperature=self.tp, permeate_pressure=self.pp,
            temperature_program=self.program,
        )

    def _initial_permeances_for_step(self):
        from pyvaporation.permeance import Permeance

        if self.initial_permeances is not None:
            return (
                Permeance(value=gen.refmodel_permeance_kg(self.initial_permeances[0], self.mix.first_component)),
                Permeance(value=gen.refmodel_permeance_kg(self.initial_permeances[1], self.mix.second_component)),
            )
        c = self.curve_set.diffusion_curves[0]
        return c.permeances[len(c) // 2]

    # ------------------------------------------------------------------ running
    def call_kwargs(self, n=None, conditions=None, dt=None):
        kw = dict(conditions=conditions or self.conditions, number_of_steps=self.n if n is None else n,
                  delta_hours=self.dt if dt is None else dt, precision=self.precision, calculation_type=self.model)
        if not self.ideal:
            kw.update(diffusion_curve_set=self.curve_set, initial_permeances=self.initial_permeances,
                      include_zero=self.include_zero, **self.orders)
        return kw

    def run(self, pv=None, **over):
        """-> ('ok', model) | ('raised', exc) | ('slow', None)"""
        pv = pv or self.pv
        kw = self.call_kwargs(**over)
        try:
            with guards.budget(SOFT_BUDGET):
                model = getattr(pv, self.kind)(**kw)
            if self.plot_after:
                plot_everything(model)  # the user looks at the result first; what is judged afterwards is the plotted object
            return "ok", model
        except guards.BudgetExceeded:
            return "slow", None
        except Exception as e:
            return "raised", e

    def cls(self):
        prog = "prog-" + self.program.type if self.program is not None else ("selfcool" if not self.isothermal else "iso")
        return f"{self.kind.replace('_process', '')}|{self.model}|{self.mode}|{prog}"

    def describe(self):
        d = {
            "kind": self.kind, "mixture": self.mdesc, "model": self.model, "membrane": gen.describe_membrane(self.membrane),
            "conditions": gen.describe_conditions(self.conditions), "steps": self.n, "delta_hours": self.dt,
            "precision": self.precision, "first_step_fraction": self.f0, "narrow_dtype": self.narrow,
        }
        if not self.ideal:
            d["curve_set"] = self.cs_desc
            d["orders"] = self.orders
            d["include_zero"] = self.include_zero
            d["initial_permeances"] = None if self.initial_permeances is None else [
                [p.value, p.units] for p in self.initial_permeances]
        return d


def exhaustion_step(model, area, dt, tol=1e-9):
    """index of the first state in which one component is all but exhausted (fraction below `tol`, or the step before
    removes the whole inventory of a component) - may equal the number of reported steps (the models look one step ahead).
    From there on rounding decides: the fraction of the vanishing component comes out as +-1e-100 and the range check of
    Composition fires for one labelling / basis and not for the other.  None when no component runs out."""
    area, dt = float(area), float(dt)
    for k in range(len(model.time)):
        w, m = float(model.feed_compositions[k].p), float(model.feed_mass[k])
        if min(w, 1 - w) < tol:
            return k
        j = model.partial_fluxes[k]
        for i, frac in ((0, w), (1, 1 - w)):
            if float(j[i]) * area * dt >= frac * m * (1 - tol):
                return k + 1
    return None


PLOTS = {"calls": 0, "failed": 0}


def plot_everything(obj):
    """call the object's own plot() on each of its series (Agg backend, nothing is shown): plotting is a read-only operation"""
    import matplotlib

    matplotlib.use("Agg")
    import matplotlib.pyplot as plt

    names = ["partial_fluxes", "permeances", "feed_temperature", "feed_compositions", "permeate_composition", "feed_mass",
             "feed_evaporation_heat", "permeate_condensation_heat"]
    for k, name in enumerate(names):
        try:
            series = getattr(obj, name, None)
            if not series or series[0] is None:
                continue
            PLOTS["calls"] += 1
            obj.plot(series, name, curve=bool(k % 2))
        except Exception:
            PLOTS["failed"] += 1
        finally:
            plt.close("all")


# ---------------------------------------------------------------------------------------------- oracles on a model
def fnum(x):
    return float(x)


def series_lengths(rep, case, model, n):
    bad = {s: len(getattr(model, s)) for s in SERIES if len(getattr(model, s)) != n}
    rep.require("every series has exactly the requested number of steps", not bad, case, {"expected": n, "wrong": bad})
    return not bad


def exact_weight_fraction(comp, mix):
    if comp.type == "weight":
        return Fraction(comp.p)
    p, m1, m2 = Fraction(comp.p), Fraction(mix.first_component.molecular_weight), Fraction(mix.second_component.molecular_weight)
    return p * m1 / (p * m1 + (1 - p) * m2)


def mass_balance(rep, case, sc, model, dt=None, area=None):
    """C01's per-step oracle on one returned model"""
    n = len(model.time)
    dt = sc.dt if dt is None else dt
    area = sc.area if area is None else area
    rep.require("time[k] = k * step length (bitwise)", all(model.time[k] == dt * k for k in range(n)), case,
                {"time": list(model.time)[:5]})
    rep.require("initial mass and temperature are the stated ones (bitwise)",
                model.feed_mass[0] == sc.m0 and model.feed_temperature[0] == sc.t0, case,
                {"m0": model.feed_mass[0], "T0": model.feed_temperature[0]})
    w0 = exact_weight_fraction(sc.x0, sc.mix)
    rep.check("initial composition = exact mass fraction of the stated composition", abs(Fraction(model.feed_compositions[0].p) - w0),
              8 * EPS * w0, case, {"got": model.feed_compositions[0].p, "exact": float(w0)})
    rep.require("feed compositions are reported as mass fractions", all(c.type == "weight" for c in model.feed_compositions), case)
    rep.require("permeate compositions are reported as mass fractions", all(c.type == "weight" for c in model.permeate_composition), case)
    for k in range(n - 1):
        j1, j2 = fnum(model.partial_fluxes[k][0]), fnum(model.partial_fluxes[k][1])
        mk, mk1 = model.feed_mass[k], model.feed_mass[k + 1]
        wk, wk1 = model.feed_compositions[k].p, model.feed_compositions[k + 1].p
        d1, d2 = j1 * area * dt, j2 * area * dt
        s = max(abs(mk), abs(mk1), abs(d1), abs(d2))
        c2 = dict(case, step=k)
        rep.check("total mass balance per step", abs(mk - mk1 - (d1 + d2)), 64 * EPS * s, c2,
                  {"m_k": mk, "m_k+1": mk1, "removed": d1 + d2})
        rep.check("component-1 mass balance per step", abs(mk * wk - mk1 * wk1 - d1), 64 * EPS * s, c2,
                  {"m1_k": mk * wk, "m1_k+1": mk1 * wk1, "removed": d1})


def model_fingerprint(model, upto=None):
    """bit-exact dump of every numeric series (for prefix / determinism comparisons)"""
    n = len(model.time) if upto is None else upto

    def h(x):
        return None if x is None else float(x).hex()

    return {
        "time": [h(v) for v in list(model.time)[:n]],
        "feed_mass": [h(v) for v in list(model.feed_mass)[:n]],
        "feed_temperature": [h(v) for v in list(model.feed_temperature)[:n]],
        "feed_compositions": [h(c.p) for c in model.feed_compositions[:n]],
        "permeate_composition": [h(c.p) for c in model.permeate_composition[:n]],
        "partial_fluxes": [[h(f[0]), h(f[1])] for f in model.partial_fluxes[:n]],
        "permeances": [[h(p[0].value), h(p[1].value)] for p in model.permeances[:n]],
        "feed_evaporation_heat": [h(v) for v in list(model.feed_evaporation_heat)[:n]],
        "permeate_condensation_heat": [h(v) for v in list(model.permeate_condensation_heat)[:n]],
    }


def first_difference(a, b):
    for key in a:
        if a[key] != b[key]:
            for i, (u, v) in enumerate(zip(a[key], b[key])):
                if u != v:
                    return {"series": key, "step": i, "a": u, "b": v}
            return {"series": key, "len_a": len(a[key]), "len_b": len(b[key])}
    return None


def admissible(rep, case, model):
    """C18's oracle on one returned model -> True when every reported state is admissible"""
    bad = None
    n = len(model.time)
    for k in range(n):
        m, t = model.feed_mass[k], model.feed_temperature[k]
        w, y = model.feed_compositions[k].p, model.permeate_composition[k].p
        j = model.partial_fluxes[k]
        q, qc = model.feed_evaporation_heat[k], model.permeate_condensation_heat[k]
        probs = []
        if not (0 < m < math.inf):
            probs.append(("feed_mass", m))
        if not (0 < t < math.inf):
            probs.append(("feed_temperature", t))
        if not (0 <= w <= 1):
            probs.append(("feed mass fraction", w))
        if not (0 <= y <= 1):
            probs.append(("permeate mass fraction", y))
        if not (math.isfinite(j[0]) and math.isfinite(j[1])):
            probs.append(("fluxes", [float(j[0]), float(j[1])]))
        if not math.isfinite(q):
            probs.append(("evaporation heat", q))
        if qc is not None and not math.isfinite(qc):
            probs.append(("condensation heat", qc))
        if probs:
            bad = {"step": k, "problems": probs}
            break
    rep.require("every reported state is admissible", bad is None, case, bad)
    return bad is None


def runaway(model, m0):
    """the explicit scheme left the physically meaningful region (self-heating by a negative driving force, feed mass
    growing without bound, temperatures far outside the range of the property data): such trajectories amplify rounding
    differences between twins without bound; relational checks count and skip them (C18 judges admissibility)"""
    for k in range(len(model.time)):
        t, m = model.feed_temperature[k], model.feed_mass[k]
        if not (150.0 <= t <= 600.0) or not (m <= 2.0 * m0):
            return True
    return False


class _StepState:
    """adapter: one reported process step seen as a flux-solver case (for the reference map of C02)"""

    def __init__(self, sc, model, k):
        self.mix, self.model = sc.mix, sc.model
        self.t_feed, self.comp = model.feed_temperature[k], model.feed_compositions[k]
        self.tp, self.pp = sc.tp, sc.pp
        self.precision = sc.precision


def non_contractive(sc, model, limit=0.9):
    """True when, at some reported step, the permeate-composition map is not locally contractive at the reported permeate
    composition: the fixed-point iteration then ends where two iterates happen to fall within the precision, which
    depends on the last bit of its input; twins of such runs cannot be compared (C02 does not judge such cases either)"""
    if sc.tp is None and (sc.pp is None or sc.pp == 0):
        return False
    from .monitors import c02

    for k in range(len(model.time)):
        st = _StepState(sc, model, k)
        y = model.permeate_composition[k].p
        p1, p2 = model.permeances[k][0].value, model.permeances[k][1].value
        if not (c02.lipschitz(st, y, p1, p2, sc.precision) < limit):
            return True
    return False
