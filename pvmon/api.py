"""Released call signatures of the public entry points each property is observed at (parameter names in positional order).

A caller written against the released API passes arguments positionally in this order or by these names; an entry point whose
leading parameters were reordered or renamed misreads such calls although every keyword-style call still works.  Every shard
of a property's check compares the live signatures of that property's entry points with this table (new trailing parameters
are fine) - next to the workload itself, which calls the main entry points both by keyword and positionally."""
import inspect

SIGNATURES = {
    "Pervaporation.calculate_partial_fluxes": ["self", "feed_temperature", "composition", "precision", "permeate_temperature", "permeate_pressure", "first_component_permeance", "second_component_permeance", "calculation_type"],
    "Pervaporation.get_partial_fluxes_from_permeate_composition": ["self", "first_component_permeance", "second_component_permeance", "permeate_composition", "feed_composition", "feed_temperature", "permeate_temperature", "permeate_pressure", "calculation_type"],
    "Pervaporation.calculate_permeate_composition": ["self", "feed_temperature", "composition", "precision", "permeate_temperature", "permeate_pressure", "calculation_type"],
    "Pervaporation.calculate_separation_factor": ["self", "feed_temperature", "composition", "permeate_temperature", "permeate_pressure", "precision", "calculation_type"],
    "Pervaporation.ideal_diffusion_curve": ["self", "feed_temperature", "compositions", "permeate_temperature", "permeate_pressure", "precision", "calculation_type"],
    "Pervaporation.ideal_isothermal_process": ["self", "number_of_steps", "delta_hours", "conditions", "precision", "calculation_type"],
    "Pervaporation.ideal_non_isothermal_process": ["self", "conditions", "number_of_steps", "delta_hours", "precision", "calculation_type"],
    "Pervaporation.non_ideal_diffusion_curve": ["self", "diffusion_curve_set", "feed_temperature", "initial_feed_composition", "delta_composition", "number_of_steps", "permeate_temperature", "permeate_pressure", "initial_permeances", "precision", "calculation_type", "n_first", "n_second", "m_first", "m_second", "include_zero"],
    "Pervaporation.non_ideal_isothermal_process": ["self", "conditions", "diffusion_curve_set", "number_of_steps", "delta_hours", "precision", "calculation_type", "initial_permeances", "n_first", "m_first", "n_second", "m_second", "include_zero"],
    "Pervaporation.non_ideal_non_isothermal_process": ["self", "conditions", "diffusion_curve_set", "number_of_steps", "delta_hours", "precision", "calculation_type", "initial_permeances", "n_first", "m_first", "n_second", "m_second", "include_zero"],
    "Membrane.get_permeance": ["self", "temperature", "component", "initial_permeance"],
    "Membrane.get_ideal_selectivity": ["self", "temperature", "first_component", "second_component", "calculation_type"],
    "Membrane.get_estimated_pure_component_flux": ["self", "temperature", "component", "permeate_temperature", "permeate_pressure"],
    "Membrane.calculate_activation_energy": ["self", "component"],
    "Permeance.convert": ["self", "to_units", "component"],
    "Permeance": ["value", "units"],
    "Composition": ["p", "type"],
    "Composition.to_molar": ["self", "mixture"],
    "Composition.to_weight": ["self", "mixture"],
    "Conditions": ["membrane_area", "initial_feed_temperature", "initial_feed_amount", "initial_feed_composition", "permeate_temperature", "permeate_pressure", "temperature_program"],
    "TemperatureProgram": ["coefficients", "type"],
    "TemperatureProgram.program": ["self", "time"],
    "DiffusionCurve": ["mixture", "membrane_name", "feed_temperature", "feed_compositions", "partial_fluxes", "permeate_temperature", "permeate_pressure", "permeances", "comments"],
    "DiffusionCurve.save": ["self", "path"],
    "DiffusionCurveSet": ["name", "diffusion_curves"],
    "DiffusionCurveSet.load": ["cls", "path"],
    "Component.get_vapor_pressure": ["self", "temperature"],
    "Component.get_vaporisation_heat": ["self", "temperature"],
    "Component.get_specific_heat": ["self", "temperature"],
    "Component.get_cooling_heat": ["self", "t0", "t1"],
    "get_partial_pressures": ["temperature", "mixture", "composition", "calculation_type"],
    "calculate_activity_coefficients": ["temperature", "mixture", "composition", "calculation_type"],
    "fit": ["data", "n", "m", "include_zero", "component_index"],
    "find_best_fit": ["data", "include_zero", "component_index", "n", "m"],
    "fit_vle": ["data", "method"],
    "PervaporationFunction.__call__": ["self", "x", "t"],
    "PervaporationFunction.save": ["self", "path"],
    "PervaporationFunction.load": ["cls", "path"],
    "PervaporationFunction.safe_save": ["self", "path"],
    "PervaporationFunction.safe_load": ["cls", "path"],
    "Conditions.safe_save": ["self", "path"],
    "Conditions.safe_load": ["cls", "path"],
    "ProcessModel.save": ["self", "membrane_path", "is_safe"],
    "ProcessModel.load": ["cls", "process_path", "is_safe"],
    "IdealExperiment": ["name", "temperature", "component", "permeance", "activation_energy", "comment"],
    "Measurement": ["x", "t", "p"],
}

_PROC = ["Pervaporation.ideal_isothermal_process", "Pervaporation.ideal_non_isothermal_process",
         "Pervaporation.non_ideal_isothermal_process", "Pervaporation.non_ideal_non_isothermal_process", "Conditions"]
_NONIDEAL = ["Pervaporation.non_ideal_diffusion_curve", "Pervaporation.non_ideal_isothermal_process", "Pervaporation.non_ideal_non_isothermal_process"]
_FLUX = ["Pervaporation.calculate_partial_fluxes", "Pervaporation.get_partial_fluxes_from_permeate_composition"]
_HELPERS = ["Pervaporation.calculate_permeate_composition", "Pervaporation.calculate_separation_factor", "Pervaporation.ideal_diffusion_curve"]

PROP_API = {
    "C01": _PROC,
    "C02": _FLUX + ["Permeance"],
    "C03": _PROC + ["TemperatureProgram", "TemperatureProgram.program", "Component.get_vaporisation_heat", "Component.get_specific_heat"],
    "C04": ["get_partial_pressures", "calculate_activity_coefficients", "Composition"],
    "C05": _NONIDEAL + ["find_best_fit", "Membrane.calculate_activation_energy"],
    "C06": _FLUX + _HELPERS + ["DiffusionCurve"],
    "C07": _FLUX + _HELPERS + ["Composition.to_molar", "Composition.to_weight", "DiffusionCurve"],
    "C08": _FLUX + _HELPERS + _PROC,
    "C09": ["DiffusionCurve", "Pervaporation.ideal_diffusion_curve", "Permeance", "Permeance.convert"],
    "C10": _FLUX + _HELPERS,
    "C11": _PROC + _NONIDEAL,
    "C12": ["Membrane.get_permeance", "Membrane.get_ideal_selectivity", "Membrane.get_estimated_pure_component_flux", "Membrane.calculate_activation_energy", "IdealExperiment"],
    "C13": ["Component.get_vapor_pressure", "Component.get_vaporisation_heat", "Component.get_specific_heat", "Component.get_cooling_heat"],
    "C14": ["Permeance", "Permeance.convert"],
    "C15": ["Composition", "Composition.to_molar", "Composition.to_weight"],
    "C16": ["fit", "find_best_fit", "fit_vle", "PervaporationFunction.__call__", "Measurement"],
    "C17": ["DiffusionCurve.save", "DiffusionCurveSet.load", "PervaporationFunction.save", "PervaporationFunction.load", "PervaporationFunction.safe_save",
            "PervaporationFunction.safe_load", "Conditions.safe_save", "Conditions.safe_load", "ProcessModel.save", "ProcessModel.load"],
    "C18": _PROC + _NONIDEAL + ["Pervaporation.ideal_diffusion_curve"],
    "C19": _FLUX + _HELPERS + _PROC + _NONIDEAL + ["DiffusionCurve"],
    "C20": _FLUX + _HELPERS + _PROC + _NONIDEAL + ["fit", "find_best_fit"],
}


def _resolve(name):
    import pyvaporation
    from pyvaporation.mixtures.mixture import calculate_activity_coefficients
    from pyvaporation.optimizer import find_best_fit, fit
    from pyvaporation.optimizer.optimizer import Measurement, PervaporationFunction
    from pyvaporation.mixtures.uniquac_fitting import fit_vle
    from pyvaporation.process import ProcessModel
    from pyvaporation.components import Component
    from pyvaporation.experiments import IdealExperiment

    ns = {"calculate_activity_coefficients": calculate_activity_coefficients, "fit": fit, "find_best_fit": find_best_fit, "fit_vle": fit_vle,
          "PervaporationFunction": PervaporationFunction, "Measurement": Measurement, "ProcessModel": ProcessModel, "Component": Component,
          "IdealExperiment": IdealExperiment}
    head, _, tail = name.partition(".")
    obj = ns.get(head)
    if obj is None:
        obj = getattr(pyvaporation, head, None)
    if obj is None:
        import importlib

        for mod in ("pyvaporation.mixtures", "pyvaporation.conditions", "pyvaporation.diffusion_curve", "pyvaporation.membrane", "pyvaporation.permeance", "pyvaporation.pervaporation"):
            obj = getattr(importlib.import_module(mod), head, None)
            if obj is not None:
                break
    if obj is None:
        raise LookupError(name)
    if tail:
        obj = inspect.getattr_static(obj, tail)
        if isinstance(obj, (classmethod, staticmethod)):
            obj = obj.__func__
        if isinstance(obj, property):
            obj = obj.fget
    return getattr(obj, "__pvmon_original__", obj)


def live(name):
    return list(inspect.signature(_resolve(name)).parameters)


def check(rep, prop):
    """compare the live signatures of the property's entry points with the released ones"""
    for name in PROP_API.get(prop, []):
        want = SIGNATURES[name]
        try:
            got = live(name)
        except Exception as e:
            rep.require("entry points keep their released positional parameter order and names", False, {"entry_point": name}, {"error": repr(e)})
            continue
        rep.require("entry points keep their released positional parameter order and names", got[: len(want)] == want, {"entry_point": name},
                    {"released": want, "now": got})
