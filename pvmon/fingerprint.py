"""NaN-stable deep structural fingerprints (floats as float.hex, so equal means bit-identical)."""
import hashlib
import math


def deep(obj, _depth=0, _seen=None):
    """nested tuple describing obj completely (attrs classes, containers, numpy / pandas values, paths)"""
    import attr
    import numpy

    if _depth > 40:
        return ("...",)
    if obj is None or isinstance(obj, (bool, str, bytes)):
        return obj
    if isinstance(obj, int):
        return ("i", obj)
    if isinstance(obj, float):
        return ("f", obj.hex())
    if isinstance(obj, numpy.generic):
        v = obj.item()
        return deep(v, _depth + 1)
    if isinstance(obj, numpy.ndarray):
        return ("nd", obj.shape, tuple(deep(v, _depth + 1) for v in obj.ravel().tolist()))
    if isinstance(obj, (list, tuple)):
        return (type(obj).__name__,) + tuple(deep(v, _depth + 1) for v in obj)
    if isinstance(obj, dict):
        return ("dict",) + tuple((deep(k, _depth + 1), deep(v, _depth + 1)) for k, v in sorted(obj.items(), key=lambda kv: repr(kv[0])))
    if attr.has(type(obj)):
        return (type(obj).__name__,) + tuple((a.name, deep(getattr(obj, a.name), _depth + 1)) for a in attr.fields(type(obj)))
    try:
        import pandas

        if isinstance(obj, pandas.Series):
            return ("series",) + tuple(deep(v, _depth + 1) for v in obj.tolist())
    except Exception:
        pass
    if hasattr(obj, "__fspath__"):
        return ("path", str(obj))
    return ("repr", repr(obj))


def digest(obj):
    return hashlib.sha256(repr(deep(obj)).encode()).hexdigest()


def first_difference(a, b, path=""):
    """a, b: results of deep(); -> description of the first difference or None"""
    if a == b:
        return None
    if isinstance(a, tuple) and isinstance(b, tuple):
        if len(a) != len(b):
            return f"{path}: length {len(a)} != {len(b)} ({str(a)[:80]} vs {str(b)[:80]})"
        for i, (u, v) in enumerate(zip(a, b)):
            d = first_difference(u, v, f"{path}/{u[0] if isinstance(u, tuple) and u and isinstance(u[0], str) else i}")
            if d:
                return d
    return f"{path}: {str(a)[:120]} != {str(b)[:120]}"
