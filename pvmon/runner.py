"""Shard scheduler, verdicts, evidence and replay files."""
import importlib
import json
import os
import shutil
import subprocess
import sys
import tempfile
import time
from concurrent.futures import ThreadPoolExecutor
from pathlib import Path

from . import bootstrap, findings, report

VERIF = bootstrap.VERIF
_OUT = Path(os.environ["PVMON_OUT"]) if os.environ.get("PVMON_OUT") else VERIF  # selftests redirect outputs
EVIDENCE = _OUT / "evidence"
REPLAY = _OUT / "replay"

EXIT_HELD, EXIT_VIOLATION, EXIT_INCONCLUSIVE = 0, 1, 2


def monitor_module(prop):
    for extra in (str(bootstrap.DEPS), str(bootstrap.repo_root())):
        if extra not in sys.path:
            sys.path.insert(0, extra)
    return importlib.import_module(f"pvmon.monitors.{prop.lower()}")


def _run_one(prop, spec, tmpdir, timeout):
    sid = spec.get("shard", 0)
    spec_path = Path(tmpdir) / f"spec_{sid}.json"
    out_path = Path(tmpdir) / f"out_{sid}.json"
    spec_path.write_text(json.dumps(spec))
    t0 = time.time()
    env = bootstrap.worker_env()
    if spec.get("optimize"):
        env["PYTHONOPTIMIZE"] = "1"  # this shard's interpreter runs with -O: the library must not rely on assert statements
    try:
        cp = subprocess.run(
            [bootstrap.PYTHON, "-X", "faulthandler", "-m", "pvmon.worker", prop, str(spec_path), str(out_path)],
            env=env, cwd=str(VERIF), timeout=timeout,
            stdout=subprocess.PIPE, stderr=subprocess.PIPE, text=True,
        )
    except subprocess.TimeoutExpired:
        return {"spec": spec, "failed": f"watchdog: shard {sid} exceeded {timeout}s wall clock", "wall": time.time() - t0}
    if cp.returncode != 0 or not out_path.exists():
        return {"spec": spec, "failed": f"worker exit {cp.returncode}: {cp.stderr[-2000:]}", "wall": time.time() - t0}
    res = json.loads(out_path.read_text())
    res["wall"] = time.time() - t0
    return res


def run_check(prop, tier, seed, workers=None, only_shard=None):
    t0 = time.time()
    bootstrap.ensure_deps()
    mod = monitor_module(prop)
    specs = mod.shards(tier, seed)
    for i, s in enumerate(specs):
        s.setdefault("shard", i)
        s["seed"] = seed
        s["tier"] = tier
        s.setdefault("optimize", s["shard"] % 4 == 3)  # a quarter of the shards runs under python -O
    if only_shard is not None:
        specs = [s for s in specs if s["shard"] == only_shard]
    workers = workers or int(os.environ.get("PVMON_WORKERS", "16"))
    timeout = getattr(mod, "SHARD_TIMEOUT", {"quick": 900, "thorough": 7200})[tier]
    tmpdir = tempfile.mkdtemp(prefix=f"pvmon_{prop}_")
    try:
        with ThreadPoolExecutor(max_workers=workers) as ex:
            results = list(ex.map(lambda s: _run_one(prop, s, tmpdir, timeout), specs))
    finally:
        shutil.rmtree(tmpdir, ignore_errors=True)

    failed = [r for r in results if "failed" in r]
    good = [r for r in results if "failed" not in r]
    agg = report.merge(good)
    for r in failed:
        agg["inconclusive"].append(r["failed"][:400])
    if agg["harness_errors"]:
        agg["inconclusive"].append(
            f"{len(agg['harness_errors'])} harness error(s), first: "
            + json.dumps(agg["harness_errors"][0])[:1500]
        )
    agg["anchors"] = check_anchors(mod, agg)
    for desc, hit in agg["anchors"].items():
        if hit is False:
            agg["inconclusive"].append(f"anchored code was never executed: {desc}")
    if hasattr(mod, "finalize") and good:
        for reason in mod.finalize(agg, tier) or []:
            agg["inconclusive"].append(reason)

    kf = findings.load()
    exit_code = EXIT_HELD
    lines = []

    # known findings: only keys listed in the committed file may be attributed
    for key, info in sorted(agg["known"].items()):
        entry = kf["finding"].get(key)
        if entry is None or prop not in entry["properties"]:
            agg["n_violations"] += info["count"]
            agg["violations"].append(
                {"oracle": f"unlisted-finding:{key}", "case": info["example"], "detail": {"what": info["what"]},
                 "spec": None}
            )
        else:
            lines.append(f"KNOWN-FINDING: property={prop} key={key} {entry['text']} [{info['count']} attributed case(s) this run]")

    if agg["n_violations"] > 0:
        exit_code = EXIT_VIOLATION
        REPLAY.mkdir(parents=True, exist_ok=True)
        seen = set()
        for i, v in enumerate(agg["violations"]):
            sig = v["oracle"]
            if sig in seen and i >= 3:
                continue
            seen.add(sig)
            path = REPLAY / f"{prop}_{tier}_s{seed}_{i}.json"
            path.write_text(json.dumps({"property": prop, "tier": tier, "seed": seed, "verif_commit": _verif_commit(), **v}, indent=1))
            lines.append(f"VIOLATION property={prop} replay={path}  oracle={v['oracle']} detail={json.dumps(v['detail'])[:300]}")
    elif agg["inconclusive"]:
        exit_code = EXIT_INCONCLUSIVE
        for reason in agg["inconclusive"]:
            lines.append(f"INCONCLUSIVE property={prop} reason={reason}")

    wall = time.time() - t0
    write_evidence(mod, prop, tier, seed, agg, wall, exit_code)
    for ln in lines:
        print(ln)
    verdict = {0: "HELD", 1: "VIOLATED", 2: "INCONCLUSIVE"}[exit_code]
    print(
        f"{prop} {tier} seed={seed}: {verdict} on {agg['cases']} cases "
        f"({agg['distinct']} distinct non-trivial), {sum(o['checked'] for o in agg['oracles'].values())} oracle evaluations, "
        f"{agg['shards']} shards, {wall:.1f}s"
    )
    for name, o in sorted(agg["oracles"].items()):
        print(f"   oracle {name}: checked={o['checked']} failed={o['failed']} max(residual/tol)={o['max_ratio']:.3g}")
    return exit_code


def check_anchors(mod, agg):
    """ANCHORS = [(repo-relative file under pyvaporation/, source snippet, description)]: the line holding the snippet must
    have been executed by the workload (line coverage from sys.monitoring).  A snippet that no longer exists in the
    sources (refactored away) is reported as None and not required."""
    out = {}
    root = bootstrap.repo_root() / "pyvaporation"
    for rel, snippet, desc in getattr(mod, "ANCHORS", []):
        try:
            text = (root / rel).read_text().splitlines()
        except OSError:
            out[desc] = None
            continue
        nums = [i + 1 for i, line in enumerate(text) if snippet in line]
        if not nums:
            out[desc] = None
            continue
        hit = agg["lines"].get(rel, set())
        out[desc] = any(n in hit for n in nums)
    return out


def write_evidence(mod, prop, tier, seed, agg, wall, exit_code):
    EVIDENCE.mkdir(parents=True, exist_ok=True)
    cov = {
        "evaluations": agg["cases"],
        "distinct_nontrivial": agg["distinct"],
        "rule": getattr(mod, "RULE", ""),
        "samples": agg["samples"],
        "oracles": agg["oracles"],
        "workload_classes": agg["classes"],
        "counters": agg["counters"],
        "known_findings_attributed": {k: v["count"] for k, v in agg["known"].items()},
        "inconclusive_reasons": agg["inconclusive"],
        "shards": agg["shards"],
        "library_lines_executed": {f: len(v) for f, v in sorted(agg.get("lines", {}).items())},
        "anchored_code_executed": agg.get("anchors", {}),
        "verdict": {0: "held", 1: "violated", 2: "inconclusive"}[exit_code],
        "repo": str(bootstrap.repo_root()),
    }
    if getattr(mod, "EXHAUSTIVE", False):
        cov["exhaustive"] = True
    ev = {
        "property_id": prop,
        "tier": tier,
        "seed": seed,
        "level": getattr(mod, "LEVEL", "exploration"),
        "coverage": cov,
        "assumptions": getattr(mod, "ASSUMPTIONS", []),
        "wall_s": round(wall, 2),
        "violations": agg["n_violations"],
    }
    (EVIDENCE / f"{prop}.json").write_text(json.dumps(ev, indent=1))


def _verif_commit():
    try:
        return subprocess.check_output(["git", "-C", str(VERIF), "rev-parse", "--short", "HEAD"], text=True, stderr=subprocess.DEVNULL).strip()
    except Exception:
        return None


def replay(path):
    """re-run the single case a replay file describes"""
    data = json.loads(Path(path).read_text())
    if data.get("verif_commit") and data["verif_commit"] != _verif_commit():
        print(f"note: this replay file was written at /verif commit {data['verif_commit']}; generators may have changed since "
              f"(current {_verif_commit()}): the case description inside the file is authoritative")
    prop = data["property"]
    spec = dict(data["spec"] or {})
    case = data.get("case") or {}
    if "index" in case:
        spec["only"] = case["index"]
    bootstrap.ensure_deps()
    tmpdir = tempfile.mkdtemp(prefix=f"pvmon_replay_{prop}_")
    try:
        res = _run_one(prop, spec, tmpdir, 1800)
    finally:
        shutil.rmtree(tmpdir, ignore_errors=True)
    if "failed" in res:
        print(f"INCONCLUSIVE property={prop} reason={res['failed']}")
        return EXIT_INCONCLUSIVE
    print(json.dumps({k: res[k] for k in ("cases", "oracles", "violations", "known")}, indent=1))
    kf = findings.load()
    unlisted = [k for k in res["known"] if k not in kf["finding"]]
    if res["n_violations"] or unlisted:
        print(f"VIOLATION property={prop} replay={path}")
        return EXIT_VIOLATION
    for key in res["known"]:
        print(f"KNOWN-FINDING: property={prop} key={key} {kf['finding'][key]['text']}")
    print(f"{prop}: replayed case holds")
    return EXIT_HELD
