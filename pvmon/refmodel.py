"""Independent reference formulas (small, reviewed by hand).  They take plain numbers /
plain data read from the objects and never call the library function they are a reference for."""
import math
from fractions import Fraction

R = 8.314462
UNIT_FACTOR = {"SI": 1.0, "GPU": 3.35e-10}


def unit_factor(units, molar_mass):
    if units == "kg/(m2*h*kPa)":
        return 1 / (molar_mass * 3.6e3)
    return UNIT_FACTOR[units]


def permeance_kg(value, units, molar_mass):
    """value in `units` -> kg/(m2 h kPa)"""
    if units == "kg/(m2*h*kPa)":
        return value
    return value * unit_factor(units, molar_mass) / unit_factor("kg/(m2*h*kPa)", molar_mass)


# ----------------------------------------------------------------------------- C12
def regressed_activation_energy(temps, values):
    """exact-rational least squares of ln(P) against 1/T -> Ea = -R * slope (J/mol)"""
    n = len(temps)
    xs = [Fraction(1) / Fraction(t) for t in temps]
    ys = [Fraction(math.log(v)) for v in values]
    mx, my = sum(xs) / n, sum(ys) / n
    slope = sum((a - mx) * (b - my) for a, b in zip(xs, ys)) / sum((a - mx) ** 2 for a in xs)
    return float(-slope * Fraction(R))


def membrane_permeance(experiments, temperature):
    """experiments: [(T, value, units, stated_Ea or None)] of ONE component, molar mass applied by caller
    via `value_kg`.  -> (value in kg units, index of nearest experiment, Ea used or None)"""
    idx = min(range(len(experiments)), key=lambda i: abs(experiments[i]["T"] - temperature))
    near = experiments[idx]
    if near["T"] == temperature:
        return near["value_kg"], idx, None
    ea = near["Ea"]
    if ea is None:
        ea = regressed_activation_energy([e["T"] for e in experiments], [e["value"] for e in experiments])
    return near["value_kg"] * math.exp(-ea / R * (1 / temperature - 1 / near["T"])), idx, ea


# ----------------------------------------------------------------------------- C16
def pervaporation_function(alpha, a, b, x, t):
    """alpha * exp(sum a_i x^(i+1) - sum b_i x^i / T)"""
    return alpha * math.exp(sum(ai * x ** (i + 1) for i, ai in enumerate(a)) - sum(bi * x**i for i, bi in enumerate(b)) / t)


# ----------------------------------------------------------------------------- C04 (UNIQUAC, Anderson & Prausnitz 1978)
def uniquac_gammas(x1, T, r1, q1, qp1, r2, q2, qp2, alpha12, alpha21, beta12, beta21, z, variant="correct"):
    """ln gamma_1 as published; gamma_2 as its exact 1<->2 mirror (variant='correct') or with the
    known-bad residual bracket of the pinned tree (variant='pinned')."""
    x2 = 1 - x1
    phi1 = x1 * r1 / (x1 * r1 + x2 * r2)
    phi2 = x2 * r2 / (x1 * r1 + x2 * r2)
    th1 = x1 * q1 / (x1 * q1 + x2 * q2)
    th2 = x2 * q2 / (x1 * q1 + x2 * q2)
    tp1 = x1 * qp1 / (x1 * qp1 + x2 * qp2)
    tp2 = x2 * qp2 / (x1 * qp1 + x2 * qp2)
    l1 = z / 2 * (r1 - q1) - (r1 - 1)
    l2 = z / 2 * (r2 - q2) - (r2 - 1)
    t12 = math.exp(-(alpha12 + beta12 / T) / T)
    t21 = math.exp(-(alpha21 + beta21 / T) / T)
    ln1 = (
        math.log(phi1 / x1) + z / 2 * q1 * math.log(th1 / phi1) + phi2 * (l1 - r1 / r2 * l2)
        - qp1 * math.log(tp1 + tp2 * t21)
        + tp2 * qp1 * (t21 / (tp1 + tp2 * t21) - t12 / (tp2 + tp1 * t12))
    )
    if variant == "correct":
        bracket = t12 / (tp2 + tp1 * t12) - t21 / (tp1 + tp2 * t21)
    else:
        bracket = t12 / (tp2 + tp1 * t21) - t12 / (tp1 + tp2 * t12)
    ln2 = (
        math.log(phi2 / x2) + z / 2 * q2 * math.log(th2 / phi2) + phi1 * (l2 - r2 / r1 * l1)
        - qp2 * math.log(tp2 + tp1 * t12)
        + tp1 * qp2 * bracket
    )
    return math.exp(ln1), math.exp(ln2)
