"""Regenerate MANIFEST.json from the monitor modules' metadata:  /venv/bin/python -m pvmon.manifest_gen"""
import importlib
import json
import sys
from pathlib import Path

from . import bootstrap

V = bootstrap.VERIF
BASELINE_OFF = "cd /repo && /venv/bin/python -m pytest -ra -q -p no:cacheprovider --timeout=900 --continue-on-collection-errors"


def main():
    for extra in (str(bootstrap.DEPS), str(bootstrap.repo_root())):
        sys.path.insert(0, extra)
    props = [json.loads(l)["id"] for l in open(V / "properties.jsonl") if l.strip()]
    checks, na = [], []
    for pid in props:
        f = V / "pvmon" / "monitors" / f"{pid.lower()}.py"
        if not f.exists():
            na.append({"property_id": pid, "reason": "monitor designed (DESIGN.md section 5) but not built yet; not claimed until its check runs silently on the unchanged tree"})
            continue
        mod = importlib.import_module(f"pvmon.monitors.{pid.lower()}")
        if getattr(mod, "NOT_CLAIMED", None):
            na.append({"property_id": pid, "reason": mod.NOT_CLAIMED})
            continue
        checks.append({
            "property_id": pid,
            "quick_cmd": f"./check {pid} --tier quick",
            "thorough_cmd": f"./check {pid} --tier thorough",
            "evidence_file": f"/verif/evidence/{pid}.json",
            "replay_cmd_template": "./check --replay {path}",
            "engine": "pvmon",
            "level_claimed": {
                "category": getattr(mod, "LEVEL", "exploration"),
                "text": mod.LEVEL_TEXT,
                "design_ref": f"DESIGN.md section 5/{pid}",
            },
            "level_note": mod.LEVEL_NOTE,
            "technique": mod.TECHNIQUE,
        })
    man = {
        "version": 1,
        "setup_cmd": "/venv/bin/python -m pip install -q --no-index --find-links /opt/veriftools/wheels --target /verif/.deps icontract deal",
        "hooks": {
            "guard": "PYVAPORATION_VERIF",
            "enable": "no source hooks: every monitor is attached from the harness at function boundaries (wrappers, icontract contracts, sys.monitoring, sys.addaudithook) to the sources imported from /repo's working tree; the guard name is reserved and unused",
            "baseline_off_cmd": BASELINE_OFF,
            "source_commits": [],
            "add_only": True,
        },
        "engines": [{
            "name": "pvmon",
            "path": "/verif/pvmon",
            "serves_properties": [c["property_id"] for c in checks],
            "kind_free_text": "runtime monitoring: seeded hostile workloads drive the real library in fresh interpreters; boundary recorders, icontract contracts, evaluation/line budgets (sys.monitoring), audit hooks and offline relational checkers decide each property on the recorded executions",
        }],
        "checks": checks,
        "not_applicable": na,
        "notes": "exit 0 held / 1 violation (VIOLATION line + replay file) / 2 inconclusive (a deciding monitor saw too few events or a watchdog fired). Known findings: /verif/KNOWN_FINDINGS.txt. Sanitizers / race detectors do not apply: pure single-threaded Python (DESIGN.md section 1).",
    }
    (V / "MANIFEST.json").write_text(json.dumps(man, indent=1) + "\n")
    print("checks:", [c["property_id"] for c in checks], "not_applicable:", [n["property_id"] for n in na])


if __name__ == "__main__":
    main()
