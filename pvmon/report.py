"""Per-shard observation record.  A worker fills one Report; the runner merges them.

Three-valued discipline: `violations` (oracle failed on a recorded execution),
`harness_errors` / `inconclusive` (the monitor could not decide), everything else held.
"""
import hashlib
import json
import math
import traceback

MAX_SAMPLES = 6
MAX_VIOLATIONS = 25


def _jsonable(x):
    if isinstance(x, float):
        if math.isnan(x) or math.isinf(x):
            return repr(x)
        return x
    if isinstance(x, (int, str, bool)) or x is None:
        return x
    if isinstance(x, dict):
        return {str(k): _jsonable(v) for k, v in x.items()}
    if isinstance(x, (list, tuple, set, frozenset)):
        return [_jsonable(v) for v in x]
    try:
        import numpy

        if isinstance(x, numpy.generic):
            return _jsonable(x.item())
        if isinstance(x, numpy.ndarray):
            return _jsonable(x.tolist())
    except Exception:
        pass
    return repr(x)


def short_hash(obj) -> str:
    return hashlib.sha1(json.dumps(_jsonable(obj), sort_keys=True).encode()).hexdigest()[:16]


class Report:
    def __init__(self, prop, spec):
        self.prop = prop
        self.spec = spec
        self.cases = 0
        self._distinct = set()
        self.counters = {}
        self.oracles = {}  # name -> {checked, max_ratio, worst}
        self.samples = []
        self.violations = []
        self.known = {}  # key -> {count, what, example}
        self.harness_errors = []
        self.inconclusive = []
        self.classes = {}  # workload class -> count
        self.n_violations = 0
        self.lines = {}  # library file -> sorted list of executed line numbers (sys.monitoring coverage)

    # ------------------------------------------------------------------ bookkeeping
    def case(self, descr, nontrivial=True, cls=None):
        """one generated case (evaluation); `descr` is its json-able description"""
        self.cases += 1
        if nontrivial:
            self._distinct.add(short_hash(descr))
        if cls is not None:
            self.classes[cls] = self.classes.get(cls, 0) + 1
        if len(self.samples) < MAX_SAMPLES and nontrivial:
            self.samples.append(_jsonable(descr))

    def count(self, name, n=1):
        self.counters[name] = self.counters.get(name, 0) + n

    def note_max(self, name, value):
        key = "max:" + name
        old = self.counters.get(key)
        if old is None or value > old:
            self.counters[key] = value

    # ------------------------------------------------------------------ oracles
    def check(self, oracle, residual, tol, case, detail=None):
        """residual <= tol must hold.  NaN residual is a failure.  Returns True if ok."""
        o = self.oracles.setdefault(oracle, {"checked": 0, "max_ratio": 0.0, "failed": 0})
        o["checked"] += 1
        try:
            residual = float(residual)
        except Exception:
            residual = float("nan")
        if tol != tol:  # a NaN tolerance means the oracle could not be evaluated: inconclusive, never a verdict
            o["checked"] -= 1
            self.harness_error(f"oracle '{oracle}': tolerance is NaN for case {str(case)[:200]}")
            return True
        ok = residual <= tol
        ratio = residual / tol if tol > 0 and not math.isnan(residual) else (0.0 if ok else float("inf"))
        if ok:
            if ratio > o["max_ratio"]:
                o["max_ratio"] = ratio
            return True
        o["failed"] += 1
        d = {"residual": residual, "tolerance": tol}
        if detail:
            d.update(detail)
        self.violation(oracle, case, d)
        return False

    def require(self, oracle, cond, case, detail=None):
        """boolean oracle"""
        o = self.oracles.setdefault(oracle, {"checked": 0, "max_ratio": 0.0, "failed": 0})
        o["checked"] += 1
        if cond:
            return True
        o["failed"] += 1
        self.violation(oracle, case, detail or {})
        return False

    def violation(self, oracle, case, detail):
        self.n_violations += 1
        if len(self.violations) < MAX_VIOLATIONS:
            self.violations.append(
                {"oracle": oracle, "case": _jsonable(case), "detail": _jsonable(detail)}
            )

    def known_finding(self, key, what, case=None):
        k = self.known.setdefault(key, {"count": 0, "what": what, "example": None})
        k["count"] += 1
        if k["example"] is None and case is not None:
            k["example"] = _jsonable(case)

    def harness_error(self, where, exc=None):
        if len(self.harness_errors) < 10:
            self.harness_errors.append(
                {"where": where, "trace": traceback.format_exc() if exc is not None else None}
            )
        self.count("harness_errors")

    def mark_inconclusive(self, reason):
        if reason not in self.inconclusive:
            self.inconclusive.append(reason)

    # ------------------------------------------------------------------ output
    def to_json(self):
        return {
            "prop": self.prop,
            "spec": self.spec,
            "cases": self.cases,
            "distinct": len(self._distinct),
            "counters": self.counters,
            "oracles": self.oracles,
            "samples": self.samples,
            "violations": self.violations,
            "n_violations": self.n_violations,
            "known": self.known,
            "harness_errors": self.harness_errors,
            "inconclusive": self.inconclusive,
            "classes": self.classes,
            "lines": self.lines,
        }


def merge(reports):
    """merge the json forms of several shard reports"""
    out = {
        "cases": 0, "distinct": 0, "counters": {}, "oracles": {}, "samples": [],
        "violations": [], "n_violations": 0, "known": {}, "harness_errors": [],
        "inconclusive": [], "classes": {}, "shards": len(reports), "lines": {},
    }
    for r in reports:
        out["cases"] += r["cases"]
        out["distinct"] += r["distinct"]
        out["n_violations"] += r["n_violations"]
        for k, v in r["counters"].items():
            if k.startswith("max:"):
                if k not in out["counters"] or v > out["counters"][k]:
                    out["counters"][k] = v
            else:
                out["counters"][k] = out["counters"].get(k, 0) + v
        for k, v in r["classes"].items():
            out["classes"][k] = out["classes"].get(k, 0) + v
        for k, v in r["oracles"].items():
            o = out["oracles"].setdefault(k, {"checked": 0, "max_ratio": 0.0, "failed": 0})
            o["checked"] += v["checked"]
            o["failed"] += v["failed"]
            o["max_ratio"] = max(o["max_ratio"], v["max_ratio"])
        if len(out["samples"]) < MAX_SAMPLES:
            out["samples"].extend(r["samples"][: max(1, MAX_SAMPLES // max(1, len(reports)))])
        for v in r["violations"]:
            v = dict(v)
            v["spec"] = r["spec"]
            out["violations"].append(v)
        for k, v in r["known"].items():
            o = out["known"].setdefault(k, {"count": 0, "what": v["what"], "example": v["example"]})
            o["count"] += v["count"]
        for f, ls in r.get("lines", {}).items():
            out["lines"].setdefault(f, set()).update(ls)
        out["harness_errors"].extend(r["harness_errors"])
        for reason in r["inconclusive"]:
            if reason not in out["inconclusive"]:
                out["inconclusive"].append(reason)
    out["samples"] = out["samples"][:MAX_SAMPLES]
    return out
