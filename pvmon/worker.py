"""One shard in one fresh interpreter:  python -m pvmon.worker C07 spec.json out.json"""
import json
import sys
import faulthandler


def main():
    prop, spec_path, out_path = sys.argv[1:4]
    spec = json.load(open(spec_path))
    faulthandler.enable()
    from . import bootstrap, report, runner

    bootstrap.import_repo()
    from . import guards

    guards.install_budget()
    if spec.get("shard", 0) % 4 == 2:
        # ambient state the user's own script may have set and the library has no business depending on: a low decimal
        # precision, another working directory
        import decimal
        import os
        import tempfile

        decimal.getcontext().prec = 6
        decimal.getcontext().rounding = decimal.ROUND_DOWN
        os.chdir(tempfile.gettempdir())
    failed = guards.provoke_failures()
    mod = runner.monitor_module(prop)
    rep = report.Report(prop, spec)
    rep.count("failed_library_calls_before_the_workload", failed)
    rep.count("shards_run_under_python_-O", 0 if __debug__ else 1)
    rep.count("shards_run_with_altered_ambient_state(decimal context, cwd)", 1 if spec.get("shard", 0) % 4 == 2 else 0)
    from . import api

    api.check(rep, prop)
    mod.run_shard(spec, rep)
    if spec.get("only") is None:
        from . import threads

        if prop in threads.BURSTS:
            try:
                threads.BURSTS[prop](rep, spec)
            except Exception as e:
                rep.harness_error(f"thread burst: {e!r}", e)
    for k, v in guards.budget_stats().items():
        rep.counters[("max:budget:" if k.startswith("max_") else "budget:") + k] = v
    from . import proc

    if proc.PLOTS["calls"]:
        rep.count("plot_calls_before_judging", proc.PLOTS["calls"])
        rep.count("plot_calls_raised", proc.PLOTS["failed"])
    rep.lines = guards.lines_hit()
    with open(out_path, "w") as fh:
        json.dump(rep.to_json(), fh)


if __name__ == "__main__":
    main()
