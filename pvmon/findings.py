"""Known-finding file (committed, read-only at run time)."""
import re

from . import bootstrap

_LINE = re.compile(r"^(finding|fixed):\s+property=(\S+)\s+(.*)$")


def load():
    out = {"finding": {}, "fixed": []}
    path = bootstrap.VERIF / "KNOWN_FINDINGS.txt"
    if not path.exists():
        return out
    for line in path.read_text().splitlines():
        m = _LINE.match(line.strip())
        if not m:
            continue
        kind, props, rest = m.groups()
        props = props.split(",")
        if kind == "finding":
            km = re.match(r"key=(\S+)\s+(.*)$", rest)
            if not km:
                continue
            out["finding"][km.group(1)] = {"properties": props, "text": km.group(2)[:220]}
        else:
            out["fixed"].append({"properties": props, "text": rest})
    return out
