"""Thread bursts: the pure, fast library functions of C04, C13, C14 and C15 called by several threads at once (a parameter
sweep on a thread pool) must return what they return one after the other.  One short burst at the end of every shard."""
import random

from . import gen, guards


def _report(rep, spec, what, jobs, descr):
    bad, made = guards.thread_burst(jobs)
    rep.count("threaded_calls", made)
    case = {"index": "thread-burst", "shard": spec["shard"], "jobs": descr}
    rep.require(f"{what}: calls issued by 4 threads at once return the serial values (bitwise)", not bad, case,
                {"mismatches": [{"job": descr[i], "serial": repr(a)[:80], "threaded": repr(b)[:80]} for i, a, b in bad]})


def _components(rng, k):
    from pyvaporation.components import Components

    return [getattr(Components, n) for n in rng.sample(gen.BUILTIN_COMPONENTS, k)]


def c14(rep, spec):
    from pyvaporation.permeance import Permeance, Units

    rng = random.Random(f"threads:C14:{spec['seed']}:{spec['shard']}")
    U = [Units.kg_m2_h_kPa, Units.SI, Units.GPU]
    jobs, descr = [], []
    for comp in _components(rng, 6):
        a, b = rng.choice(U), rng.choice(U)
        v = gen.loguniform(rng, 1e-9, 1e3)
        jobs.append(lambda a=a, b=b, v=v, comp=comp: Permeance(value=v, units=a).convert(b, comp).value)
        descr.append([comp.name, a, b, v])
    _report(rep, spec, "unit conversion", jobs, descr)


def c15(rep, spec):
    from pyvaporation.mixtures import Composition, Mixtures

    rng = random.Random(f"threads:C15:{spec['seed']}:{spec['shard']}")
    jobs, descr = [], []
    for name in rng.sample(gen.BUILTIN_MIXTURES, 6):
        mix = getattr(Mixtures, name)
        p = rng.uniform(0.02, 0.98)
        conv = rng.choice(["to_molar", "to_weight"])
        typ = "weight" if conv == "to_molar" else "molar"
        jobs.append(lambda p=p, typ=typ, conv=conv, mix=mix: getattr(Composition(p=p, type=typ), conv)(mix).p)
        descr.append([name, conv, p])
    _report(rep, spec, "composition conversion", jobs, descr)


def c13(rep, spec):
    rng = random.Random(f"threads:C13:{spec['seed']}:{spec['shard']}")
    jobs, descr = [], []
    for comp in _components(rng, 6):
        t = rng.uniform(290, 370)
        fn = rng.choice(["get_vapor_pressure", "get_vaporisation_heat", "get_specific_heat", "get_cooling_heat"])
        if fn == "get_cooling_heat":
            jobs.append(lambda comp=comp, t=t: float(comp.get_cooling_heat(t, t - 17.0)))
        else:
            jobs.append(lambda comp=comp, t=t, fn=fn: float(getattr(comp, fn)(t)))
        descr.append([comp.name, fn, t])
    _report(rep, spec, "component property functions", jobs, descr)


def c04(rep, spec):
    from pyvaporation.mixtures import Composition, Mixtures, get_partial_pressures

    rng = random.Random(f"threads:C04:{spec['seed']}:{spec['shard']}")
    jobs, descr = [], []
    for name in rng.sample(gen.BUILTIN_MIXTURES, 6):
        mix = getattr(Mixtures, name)
        x, t, model = rng.uniform(0.05, 0.95), rng.uniform(300, 360), rng.choice(["NRTL", "UNIQUAC"])
        jobs.append(lambda x=x, t=t, model=model, mix=mix: tuple(float(v) for v in get_partial_pressures(t, mix, Composition(p=x, type="molar"), model)))
        descr.append([name, model, t, x])
    _report(rep, spec, "partial pressures", jobs, descr)


BURSTS = {"C04": c04, "C13": c13, "C14": c14, "C15": c15}
