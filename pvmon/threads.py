"""Thread bursts: the pure, fast library functions of C04, C13, C14 and C15 called by several threads at once (a parameter
sweep on a thread pool) must return what they return one after the other.  One short burst at the end of every shard."""
import random

from . import gen, guards


def _report(rep, spec, what, jobs, descr):
    bad, made = guards.thread_burst(jobs)
    rep.count("threaded_calls", made)
    case = {"index": "thread-burst", "shard": spec["shard"], "jobs": descr}
    rep.require(f"{what}: calls issued by 4 threads at once return the serial values (bitwise)", not bad, case,
                {"mismatches": [{"job": descr[i], "serial": repr(a)[:80], "threaded": repr(b)[:80]} for i, a, b in bad]})


def _components(rng, k):
    from pyvaporation.components import Components

    return [getattr(Components, n) for n in rng.sample(gen.BUILTIN_COMPONENTS, k)]


def c14(rep, spec):
    from pyvaporation.permeance import Permeance, Units

    rng = random.Random(f"threads:C14:{spec['seed']}:{spec['shard']}")
    U = [Units.kg_m2_h_kPa, Units.SI, Units.GPU]
    jobs, descr = [], []
    for comp in _components(rng, 6):
        a, b = rng.choice(U), rng.choice(U)
        v = gen.loguniform(rng, 1e-9, 1e3)
        jobs.append(lambda a=a, b=b, v=v, comp=comp: Permeance(value=v, units=a).convert(b, comp).value)
        descr.append([comp.name, a, b, v])
    _report(rep, spec, "unit conversion", jobs, descr)


def c15(rep, spec):
    from pyvaporation.mixtures import Composition, Mixtures

    rng = random.Random(f"threads:C15:{spec['seed']}:{spec['shard']}")
    jobs, descr = [], []
    for name in rng.sample(gen.BUILTIN_MIXTURES, 6):
        mix = getattr(Mixtures, name)
        p = rng.uniform(0.02, 0.98)
        conv = rng.choice(["to_molar", "to_weight"])
        typ = "weight" if conv == "to_molar" else "molar"
        jobs.append(lambda p=p, typ=typ, conv=conv, mix=mix: getattr(Composition(p=p, type=typ), conv)(mix).p)
        descr.append([name, conv, p])
    _report(rep, spec, "composition conversion", jobs, descr)


def c13(rep, spec):
    rng = random.Random(f"threads:C13:{spec['seed']}:{spec['shard']}")
    jobs, descr = [], []
    for comp in _components(rng, 6):
        t = rng.uniform(290, 370)
        fn = rng.choice(["get_vapor_pressure", "get_vaporisation_heat", "get_specific_heat", "get_cooling_heat"])
        if fn == "get_cooling_heat":
            jobs.append(lambda comp=comp, t=t: float(comp.get_cooling_heat(t, t - 17.0)))
        else:
            jobs.append(lambda comp=comp, t=t, fn=fn: float(getattr(comp, fn)(t)))
        descr.append([comp.name, fn, t])
    _report(rep, spec, "component property functions", jobs, descr)


def c04(rep, spec):
    from pyvaporation.mixtures import Composition, Mixtures, get_partial_pressures

    rng = random.Random(f"threads:C04:{spec['seed']}:{spec['shard']}")
    jobs, descr = [], []
    for name in rng.sample(gen.BUILTIN_MIXTURES, 6):
        mix = getattr(Mixtures, name)
        x, t, model = rng.uniform(0.05, 0.95), rng.uniform(300, 360), rng.choice(["NRTL", "UNIQUAC"])
        jobs.append(lambda x=x, t=t, model=model, mix=mix: tuple(float(v) for v in get_partial_pressures(t, mix, Composition(p=x, type="molar"), model)))
        descr.append([name, model, t, x])
    _report(rep, spec, "partial pressures", jobs, descr)


def c02(rep, spec):
    """one shared Pervaporation object per mixture, different states and models from different threads"""
    from pyvaporation.membrane import Membrane
    from pyvaporation.mixtures import Composition, Mixtures
    from pyvaporation.permeance import Permeance
    from pyvaporation.pervaporation import Pervaporation

    rng = random.Random(f"threads:C02:{spec['seed']}:{spec['shard']}")
    mix = getattr(Mixtures, rng.choice(["H2O_EtOH", "H2O_MeOH", "H2O_iPOH"]))
    pv = Pervaporation(Membrane("M"), mix)
    jobs, descr = [], []
    for _ in range(6):
        x, t, model = rng.uniform(0.1, 0.9), rng.uniform(310, 350), rng.choice(["NRTL", "UNIQUAC"])
        tp = rng.choice([None, t - 60.0])
        pp = None if tp is not None else rng.choice([None, 0.2])
        p1, p2 = gen.loguniform(rng, 1e-3, 1e-1), gen.loguniform(rng, 1e-4, 1e-2)

        def job(x=x, t=t, model=model, tp=tp, pp=pp, p1=p1, p2=p2):
            j = pv.calculate_partial_fluxes(t, Composition(p=x, type="weight"), 1e-6, tp, pp, Permeance(value=p1), Permeance(value=p2), model)
            return (float(j[0]), float(j[1]))

        jobs.append(job)
        descr.append([mix.name, model, t, x, tp, pp, p1, p2])
    _report(rep, spec, "flux calculation on one shared object", jobs, descr)


def c12(rep, spec):
    rng = random.Random(f"threads:C12:{spec['seed']}:{spec['shard']}")
    from pyvaporation.mixtures import Mixtures

    mix = getattr(Mixtures, rng.choice(gen.BUILTIN_MIXTURES))
    mem = gen.gen_membrane(rng, mix)
    jobs, descr = [], []
    for _ in range(6):
        t = rng.uniform(280, 400)
        comp = rng.choice([mix.first_component, mix.second_component])
        jobs.append(lambda t=t, comp=comp: mem.get_permeance(t, comp).value)
        descr.append([comp.name, t])
    _report(rep, spec, "membrane permeance lookup on one shared membrane", jobs, descr)


BURSTS = {"C02": c02, "C04": c04, "C12": c12, "C13": c13, "C14": c14, "C15": c15}
