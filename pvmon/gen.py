"""Seeded generators.  Every case derives its own RNG from (property, seed, shard, index),
so a single case can be replayed without generating its predecessors."""
import math
import random

from pyvaporation.components import Component, Components
from pyvaporation.conditions import Conditions, TemperatureProgram
from pyvaporation.diffusion_curve import DiffusionCurve, DiffusionCurveSet
from pyvaporation.experiments import IdealExperiment, IdealExperiments
from pyvaporation.membrane import Membrane
from pyvaporation.mixtures import Composition, CompositionType, Mixture, Mixtures
from pyvaporation.permeance import Permeance, Units
from pyvaporation.pervaporation import Pervaporation
from pyvaporation.utils import (
    HeatCapacityConstants,
    NRTLParameters,
    UNIQUACConstants,
    UNIQUACParameters,
    VaporPressureConstants,
)

BUILTIN_MIXTURES = [
    "H2O_MeOH", "H2O_EtOH", "H2O_iPOH", "H2O_AceticAcid",
    "EtOH_ETBE", "MeOH_Toluene", "MeOH_MTBE", "MeOH_DMC",
]
BUILTIN_COMPONENTS = [
    "H2O", "MeOH", "EtOH", "iPOH", "MTBE", "ETBE", "DME", "DMC",
    "CycloHexane", "Benzene", "Toluene", "AceticAcid",
]
UNITS = [Units.kg_m2_h_kPa, Units.SI, Units.GPU]


# "few keys, many operations": a share of all cases reuses a handful of temperatures and a handful of long-lived
# Composition OBJECTS across different mixtures, membranes and models, so that hidden state keyed too coarsely
# (per-name / per-temperature / per-object memos) collides within one worker process
TEMPERATURE_GRID = [293.15, 313.15, 333.15, 353.15]
_COMPOSITION_POOL = []


def pick_temperature(rng, lo, hi, p_grid=0.25):
    if rng.random() < p_grid:
        return rng.choice([t for t in TEMPERATURE_GRID if lo <= t <= hi] or [0.5 * (lo + hi)])
    return rng.uniform(lo, hi)


def pooled_composition(rng):
    """one of eight long-lived mass-fraction Composition objects (the library must treat them as read-only values)"""
    if not _COMPOSITION_POOL:
        for w in (0.05, 0.1, 0.2, 0.35, 0.5, 0.65, 0.8, 0.93):
            _COMPOSITION_POOL.append(Composition(p=w, type=CompositionType.weight))
    return rng.choice(_COMPOSITION_POOL)


def case_rng(prop, seed, shard, index):
    return random.Random(f"{prop}:{seed}:{shard}:{index}")


def loguniform(rng, lo, hi):
    return math.exp(rng.uniform(math.log(lo), math.log(hi)))


# --------------------------------------------------------------------------- components
def synth_component(rng, name, uniquac=True):
    M = loguniform(rng, 15, 200)
    tb = rng.uniform(300, 420)
    if rng.random() < 0.5:
        c = rng.uniform(-60, -15)
        b = rng.uniform(-2200, -1000)
        a = math.log10(101.325) - b / (tb + c)
        typ = "antoine"
    else:
        b = rng.uniform(-6000, -3000)
        c = rng.uniform(-3e5, 1e5)
        a = math.log(101.325) - b / tb - c / tb**2
        typ = "frost"
    while True:
        ca = rng.uniform(30, 150)
        cb = rng.uniform(-0.2, 0.4)
        cc = rng.uniform(-5e-4, 1e-3)
        cd = rng.uniform(-1e-6, 1e-6)
        if all(ca + cb * t + cc * t * t + cd * t**3 > 10 for t in range(150, 521, 10)):
            break
    uq = None
    if uniquac:
        r = rng.uniform(0.9, 5)
        q = rng.uniform(0.8, 4.5)
        qi = rng.uniform(0.7 * q, q) if rng.random() < 0.5 else None
        uq = UNIQUACConstants(r=r, q_geometric=q, q_interaction=qi)
    comp = Component(
        name=name,
        molecular_weight=M,
        vapour_pressure_constants=VaporPressureConstants(a=a, b=b, c=c, type=typ),
        heat_capacity_constants=HeatCapacityConstants(a=ca, b=cb, c=cc, d=cd),
        uniquac_constants=uq,
    )
    return comp


def describe_component(c):
    v = c.vapour_pressure_constants
    h = c.heat_capacity_constants
    u = c.uniquac_constants
    return {
        "name": c.name, "M": c.molecular_weight, "vp": [v.type, v.a, v.b, v.c],
        "cp": [h.a, h.b, h.c, h.d],
        "uq": None if u is None else [u.r, u.q_geometric, u.q_interaction],
    }


def synth_nrtl(rng, zero=False):
    if zero:
        return NRTLParameters(g12=0.0, g21=0.0, alpha12=rng.uniform(0.1, 0.6))
    return NRTLParameters(
        g12=rng.uniform(-8000, 8000),
        g21=rng.uniform(-8000, 8000),
        alpha12=rng.uniform(0.1, 0.6),
        alpha21=rng.uniform(0.1, 0.6) if rng.random() < 0.4 else None,
        a12=rng.uniform(-3, 3) if rng.random() < 0.4 else 0,
        a21=rng.uniform(-3, 3) if rng.random() < 0.4 else 0,
    )


def synth_uniquac(rng):
    return UNIQUACParameters(
        alpha_12=rng.uniform(-300, 300),
        alpha_21=rng.uniform(-300, 300),
        beta_12=rng.uniform(-2e4, 2e4) if rng.random() < 0.6 else 0.0,
        beta_21=rng.uniform(-2e4, 2e4) if rng.random() < 0.6 else 0.0,
        z=10,
    )


def synth_mixture(rng, zero_nrtl=False, extreme_masses=False, only=None):
    """`only`: 'NRTL' / 'UNIQUAC' builds a user-defined mixture that carries the data of that model alone (the optional
    fields of the other model - UNIQUAC constants of the components, the other parameter set - are left out)"""
    c1 = synth_component(rng, "S1", uniquac=only != "NRTL")
    c2 = synth_component(rng, "S2", uniquac=only != "NRTL")
    if extreme_masses:
        c1.molecular_weight = loguniform(rng, 2, 2000)
        c2.molecular_weight = loguniform(rng, 2, 2000)
    nrtl, uq = synth_nrtl(rng, zero=zero_nrtl), synth_uniquac(rng)
    return Mixture(
        name="synthetic",
        first_component=c1,
        second_component=c2,
        nrtl_params=None if only == "UNIQUAC" else nrtl,
        uniquac_params=None if only == "NRTL" else uq,
    )


def only_model(mixture):
    """the one activity model a mixture carries data for, or None when it carries both"""
    if mixture.uniquac_params is None or mixture.first_component.uniquac_constants is None or mixture.second_component.uniquac_constants is None:
        return "NRTL"
    if mixture.nrtl_params is None:
        return "UNIQUAC"
    return None


def pick_model(rng, mixture, models=("NRTL", "UNIQUAC")):
    m = rng.choice(list(models))
    o = only_model(mixture)
    return o if (o is not None and o in models) else m


def gen_mixture(rng, p_synth=0.4, minimal=0.0):
    """-> (mixture, description); `minimal`: share of the synthetic mixtures that carry one model's data only"""
    if rng.random() < p_synth:
        only = None
        if minimal and rng.random() < minimal:
            # NRTL-only: a DiffusionCurve of the pinned library always evaluates NRTL partial pressures (it has no model
            # field), so a UNIQUAC-only mixture cannot carry curves at all; those are used in C04 (thermodynamics) only
            only = "NRTL"
        m = synth_mixture(rng, only=only)
        return m, describe_mixture(m)
    name = rng.choice(BUILTIN_MIXTURES)
    return getattr(Mixtures, name), name


def describe_mixture(m):
    if m.name in BUILTIN_MIXTURES and getattr(Mixtures, m.name) is m:
        return m.name
    n = m.nrtl_params
    u = m.uniquac_params
    return {
        "c1": describe_component(m.first_component),
        "c2": describe_component(m.second_component),
        "nrtl": None if n is None else [n.g12, n.g21, n.alpha12, n.alpha21, n.a12, n.a21],
        "uniquac": None if u is None else [u.alpha_12, u.alpha_21, u.beta_12, u.beta_21, u.z],
    }


def swap_mixture(m):
    """the same physical mixture with the component labels exchanged"""
    n = m.nrtl_params
    u = m.uniquac_params
    n2 = None
    if n is not None:
        if n.alpha21 is None:
            n2 = NRTLParameters(g12=n.g21, g21=n.g12, alpha12=n.alpha12, alpha21=None, a12=n.a21, a21=n.a12)
        else:
            n2 = NRTLParameters(g12=n.g21, g21=n.g12, alpha12=n.alpha21, alpha21=n.alpha12, a12=n.a21, a21=n.a12)
    u2 = None
    if u is not None:
        u2 = UNIQUACParameters(alpha_12=u.alpha_21, alpha_21=u.alpha_12, beta_12=u.beta_21, beta_21=u.beta_12, z=u.z)
    return Mixture(
        name=m.name + "_swapped",
        first_component=m.second_component,
        second_component=m.first_component,
        nrtl_params=n2,
        uniquac_params=u2,
    )


# --------------------------------------------------------------------------- compositions
def fresh_str(s):
    """an equal but not identical string object (what json / csv / pickle loading produces): `is` comparisons with
    the library's constants fail for it, `==` comparisons succeed"""
    return (s + " ")[:-1]


def gen_fraction(rng, edge=0.01):
    return rng.uniform(edge, 1 - edge)


def gen_composition(rng, mixture, basis=None, edge=0.01):
    """a composition whose MASS fraction is uniform in (edge, 1-edge), expressed in `basis`"""
    w = Composition(p=gen_fraction(rng, edge), type=fresh_str("weight") if rng.random() < 0.3 else CompositionType.weight)
    basis = basis or rng.choice(["weight", "molar"])
    if basis == "molar":
        c = to_molar_exact(w, mixture)
        if rng.random() < 0.3:
            c.type = fresh_str("molar")
        return c
    return w


_flip = {}


def _type_label(s):
    """alternately (per label) the library's constant and an equal-but-not-identical string (as produced by json / csv /
    pickle)"""
    _flip[s] = _flip.get(s, 0) + 1
    return fresh_str(s) if _flip[s] % 2 else s


def to_molar_exact(comp, mixture):
    if comp.type == CompositionType.molar:
        return comp
    m1, m2 = mixture.first_component.molecular_weight, mixture.second_component.molecular_weight
    p = (comp.p / m1) / (comp.p / m1 + (1 - comp.p) / m2)
    return Composition(p=min(1.0, max(0.0, p)), type=_type_label("molar"))


def to_weight_exact(comp, mixture):
    if comp.type == CompositionType.weight:
        return comp
    m1, m2 = mixture.first_component.molecular_weight, mixture.second_component.molecular_weight
    p = (comp.p * m1) / (comp.p * m1 + (1 - comp.p) * m2)
    return Composition(p=min(1.0, max(0.0, p)), type=_type_label("weight"))


def describe_composition(c):
    return [c.p, c.type]


# --------------------------------------------------------------------------- permeances, membranes
def gen_permeance_value(rng, lo=1e-6, hi=1.0):
    return loguniform(rng, lo, hi)


def permeance_in_units(value_kg, units, component):
    """a Permeance expressed in `units` that is physically `value_kg` kg/(m2 h kPa)"""
    label = _type_label(units)  # alternately the library's constant and an equal, non-identical string
    if units == Units.kg_m2_h_kPa:
        return Permeance(value=value_kg, units=label)
    si = value_kg / (component.molecular_weight * 3.6e3)
    if units == Units.SI:
        return Permeance(value=si, units=label)
    return Permeance(value=si / 3.35e-10, units=label)


def gen_experiments(rng, component, n, stated, on_line=True, units=None, t_lo=283.0, t_hi=390.0, name="exp"):
    """n ideal experiments of one component at distinct temperatures (>= 1 K apart)"""
    units = units or rng.choice(UNITS)
    while True:
        temps = sorted(rng.uniform(t_lo, t_hi) for _ in range(n))
        if all(b - a >= 1.0 for a, b in zip(temps, temps[1:])):
            break
    e_act = rng.uniform(-60e3, 120e3)
    if rng.random() < 0.1:
        e_act = rng.choice([0.0, 0.0, 1e-9, -1e-9, 1.0])  # a temperature-independent permeance is a legitimate statement
    p0 = gen_permeance_value(rng, 1e-5, 0.3)
    t0 = temps[0]
    exps = []
    for t in temps:
        val = p0 * math.exp(-e_act / 8.314462 * (1 / t - 1 / t0))
        if not on_line:
            val *= math.exp(rng.uniform(-0.3, 0.3))
        exps.append(
            IdealExperiment(
                name=name, temperature=t, component=component,
                permeance=permeance_in_units(val, units, component),
                activation_energy=e_act if stated else None,
            )
        )
    rng.shuffle(exps)
    return exps, e_act


def gen_membrane(rng, mixture, n1=None, n2=None, stated=None, on_line=None, same_units=False):
    """membrane with ideal experiments for both components of `mixture`"""
    stated1 = rng.random() < 0.5 if stated is None else stated
    stated2 = rng.random() < 0.5 if stated is None else stated
    n1 = n1 or (rng.randint(1, 3) if stated1 else rng.randint(2, 4))
    n2 = n2 or (rng.randint(1, 3) if stated2 else rng.randint(2, 4))
    ol = rng.random() < 0.6 if on_line is None else on_line
    units = Units.kg_m2_h_kPa if same_units else None
    e1, ea1 = gen_experiments(rng, mixture.first_component, n1, stated1, ol, units)
    e2, ea2 = gen_experiments(rng, mixture.second_component, n2, stated2, ol, units)
    exps = e1 + e2
    rng.shuffle(exps)
    # sequence flavours: the library's containers are typed as lists, tuples work just as well in the pinned library
    return Membrane(name="M", ideal_experiments=IdealExperiments(experiments=tuple(exps) if rng.random() < 0.12 else exps))


def describe_membrane(mem):
    if mem.ideal_experiments is None:
        return {"name": mem.name, "ideal_experiments": None}
    return [
        [e.component.name, e.temperature, e.permeance.value, e.permeance.units, e.activation_energy]
        for e in mem.ideal_experiments.experiments
    ]


def swap_membrane(mem):
    return mem  # experiments are keyed by component name: nothing to exchange


# --------------------------------------------------------------------------- permeate condition
MODES = ["V", "T", "Tnear", "P", "Psmall", "P0"]


def bubble_pressure(mixture, temperature, comp, model="NRTL"):
    from pyvaporation.mixtures import get_partial_pressures

    return sum(get_partial_pressures(temperature, mixture, comp, model))


def gen_permeate(rng, mode, mixture, t_feed, comp, model="NRTL"):
    """-> (permeate_temperature, permeate_pressure)"""
    if mode == "V":
        return None, None
    if mode == "T":
        if rng.random() < 0.1:
            return rng.uniform(60.0, 120.0), None  # a cryogenic trap (liquid nitrogen, 77 K): still a stated permeate temperature
        return rng.uniform(120.0, t_feed), None
    if mode == "Tnear":
        if rng.random() < 0.03:
            return t_feed, None  # exactly at equilibrium temperature: the upper end of the stated range
        return t_feed - abs(rng.gauss(0, 8.0)) - 1e-3, None
    if mode == "P0":
        return None, 0.0
    pb = bubble_pressure(mixture, t_feed, comp, model)
    if mode == "Pneutral":
        # the permeate pressure at which the pressure-mode composition map has a neutral 2-cycle, F(F(y)) = y: the
        # permeance-weighted mean of the two feed partial pressures (needs the permeances: supplied by the caller)
        raise ValueError("Pneutral needs permeances: use neutral_pressure()")
    if mode == "Psmall":
        return None, min(rng.uniform(0, 2.0), 0.9 * pb)
    # "P": mostly below the bubble pressure so that the driving forces stay positive
    u = rng.random()
    if u < 0.8:
        return None, rng.uniform(0, 0.9) * min(pb, 100.0)
    return None, rng.uniform(0, 100.0)


def neutral_pressure(rng, mixture, t_feed, comp, model, p1, p2):
    from pyvaporation.mixtures import get_partial_pressures

    pf = get_partial_pressures(t_feed, mixture, comp, model)
    p = (p1 * float(pf[0]) + p2 * float(pf[1])) / (p1 + p2)
    return p * (1 + rng.choice([0.0, 0.0, 1e-15, -1e-15, 1e-12, -1e-12, 1e-9, -1e-9, 1e-6, -1e-6, 1e-4, -1e-4]))


# --------------------------------------------------------------------------- conditions / programmes
def gen_program(rng, t0, duration, ndarray=0.2):
    kind = rng.choice(["polynomial", "polynomial", "exponential", "logarithmic"])
    tau = max(duration, 1e-12)
    if kind == "polynomial":
        s = rng.uniform(-25, 25) / tau
        q = rng.uniform(-8, 8) / tau**2
        start = t0 if rng.random() < 0.7 else t0 + rng.uniform(-20, 20)  # a programme need not start at the initial temperature
        u = rng.random()
        if u < 0.1:
            coeffs = [start] if rng.random() < 0.5 else [start, 0.0]  # a constant programme
        else:
            coeffs = [start, s] if u < 0.55 else [start, s, q]
    elif kind == "exponential":
        # c0 * exp(c1 + c2 x)
        c0 = rng.uniform(50, 400)
        c1 = math.log(t0 / c0)
        c2 = rng.uniform(-0.08, 0.08) / tau
        coeffs = [c0, c1, c2]
    else:
        # c0 * ln(c1 + c2 x)
        c0 = rng.uniform(60, 120)
        c1 = math.exp(t0 / c0)
        c2 = c1 * rng.uniform(-0.2, 0.25) / tau
        coeffs = [c0, c1, c2]
    if rng.random() < ndarray:
        import numpy

        coeffs = numpy.array(coeffs, dtype=float)  # e.g. straight from numpy.polyfit
    elif rng.random() < 0.15:
        coeffs = tuple(coeffs)
    return TemperatureProgram(coefficients=coeffs, type=kind)


def describe_conditions(c):
    tp = c.temperature_program
    return {
        "area": c.membrane_area, "T0": c.initial_feed_temperature, "m0": c.initial_feed_amount,
        "x0": describe_composition(c.initial_feed_composition),
        "Tp": c.permeate_temperature, "pp": c.permeate_pressure,
        "program": None if tp is None else [tp.type, [float(v) for v in tp.coefficients]],
    }


# --------------------------------------------------------------------------- curve sets
def synth_permeance_law(rng, temperature_dependent=True):
    """P(x, T) = alpha * exp(a1 x + a2 x^2 - (b0 + b1 x)/T), values roughly 1e-4 .. 1"""
    a1 = rng.uniform(-2.5, 2.5)
    a2 = rng.uniform(-1.5, 1.5) if rng.random() < 0.5 else 0.0
    b0 = rng.uniform(500, 5000) if temperature_dependent else 0.0
    b1 = rng.uniform(-800, 800) if temperature_dependent and rng.random() < 0.5 else 0.0
    level = loguniform(rng, 1e-4, 0.3)
    alpha = level * math.exp(b0 / 330.0)

    def law(x, t):
        return alpha * math.exp(a1 * x + a2 * x * x - (b0 + b1 * x) / t)

    return law, {"alpha": alpha, "a": [a1, a2], "b": [b0, b1]}


def gen_curve_set(rng, mixture, n_curves=None, basis=None, n_points=None, units=None, temps=None):
    """synthetic composition- and temperature-dependent diffusion-curve set built from permeances"""
    n_curves = n_curves or rng.randint(1, 3)
    basis = basis or rng.choice(["weight", "molar", "mixed"])  # 'mixed': the basis is chosen per point (the file format stores it per point)
    units = units or Units.kg_m2_h_kPa
    law1, d1 = synth_permeance_law(rng)
    law2, d2 = synth_permeance_law(rng)
    if temps is None:
        while True:
            temps = sorted(rng.uniform(293, 363) for _ in range(n_curves))
            if all(b - a >= 5 for a, b in zip(temps, temps[1:])):
                break
        if n_curves >= 2 and rng.random() < 0.12:
            temps = [temps[0]] * n_curves  # replicate curves: several curves measured at one and the same temperature
    curves = []
    temps = list(temps)
    if rng.random() < 0.5:
        rng.shuffle(temps)  # a set need not list its curves by ascending temperature
    for t in temps:
        k = n_points or rng.randint(4, 8)
        ws = sorted(rng.uniform(0.03, 0.97) for _ in range(k))
        comps, perms = [], []
        for w in ws:
            cw = Composition(p=w, type=CompositionType.weight)
            point_basis = rng.choice(["weight", "molar"]) if basis == "mixed" else basis
            comps.append(to_molar_exact(cw, mixture) if point_basis == "molar" else cw)
            perms.append(
                (
                    permeance_in_units(law1(w, t), units, mixture.first_component),
                    permeance_in_units(law2(w, t), units, mixture.second_component),
                )
            )
        flavour = rng.random()
        if flavour < 0.08:
            comps, perms = tuple(comps), tuple(perms)
        elif flavour < 0.16:
            perms = [list(p) for p in perms]
        curves.append(
            DiffusionCurve(
                mixture=mixture, membrane_name="M", feed_temperature=t,
                feed_compositions=comps, permeances=perms, comments="synthetic",
            )
        )
    return DiffusionCurveSet(name="synthetic", diffusion_curves=tuple(curves) if rng.random() < 0.1 else curves), {
        "law1": d1, "law2": d2, "temps": temps, "basis": basis, "units": units,
        "points": [len(c) for c in curves],
    }


def initial_total_flux(pv, t_feed, comp, tp, pp, model, perms=None):
    kw = {}
    if perms is not None:
        kw = {"first_component_permeance": perms[0], "second_component_permeance": perms[1]}
    j = pv.calculate_partial_fluxes(
        feed_temperature=t_feed, composition=comp, precision=1e-4,
        permeate_temperature=tp, permeate_pressure=pp, calculation_type=model, **kw
    )
    return j


# --------------------------------------------------------------------------- flux-solver cases (C02, C08, C09, C10)
class FluxCase:
    """one call of the flux solver: everything needed to make it, plus a json-able description"""

    def __init__(self, rng, modes=None, models=("NRTL", "UNIQUAC"), p_membrane=0.15, p_synth=0.4, edge=0.001):
        self.mix, self.mdesc = gen_mixture(rng, p_synth, minimal=0.2 if len(models) == 2 else 0.0)
        self.model = pick_model(rng, self.mix, models)
        if rng.random() < 0.4:
            self.model = fresh_str(self.model)  # an equal string from elsewhere (config file, CLI), not the literal
        self.membrane = gen_membrane(rng, self.mix)
        if rng.random() < 0.05:
            import pickle

            import copy

            # equal values, new identities: through pickle, or a deep copy (what a user does before a what-if study)
            self.mix, self.membrane = pickle.loads(pickle.dumps((self.mix, self.membrane))) if rng.random() < 0.5 else copy.deepcopy((self.mix, self.membrane))
        self.pv = Pervaporation(self.membrane, self.mix)
        self.t_feed = pick_temperature(rng, 273.0, 400.0)
        self.comp = pooled_composition(rng) if rng.random() < 0.15 else gen_composition(rng, self.mix, edge=edge)
        if rng.random() < 0.08:
            # 'hot' case: grid temperature AND pooled composition together, so that different mixtures of equal name meet
            # at exactly the same (T, composition) key within one process
            self.t_feed = rng.choice(TEMPERATURE_GRID)
            self.comp = pooled_composition(rng)
        self.mode = rng.choice(modes or MODES)
        self.from_membrane = rng.random() < p_membrane
        if self.from_membrane and rng.random() < 0.25:
            # exactly at an experiment's temperature (the branch that returns the measured value)
            self.t_feed = rng.choice(self.membrane.ideal_experiments.experiments).temperature
        if rng.random() < 0.05:
            self.pv = retargeted(rng, self.membrane, self.mix)
        if self.from_membrane:
            self.p1 = self.membrane.get_permeance(self.t_feed, self.mix.first_component)
            self.p2 = self.membrane.get_permeance(self.t_feed, self.mix.second_component)
        else:
            self.p1 = Permeance(value=gen_permeance_value(rng))
            self.p2 = Permeance(value=gen_permeance_value(rng))
        self.precision = loguniform(rng, 1e-8, 1e-3)
        try:
            if self.mode == "Pneutral":
                self.tp, self.pp = None, neutral_pressure(rng, self.mix, self.t_feed, self.comp, self.model, self.p1.value, self.p2.value)
            else:
                self.tp, self.pp = gen_permeate(rng, self.mode, self.mix, self.t_feed, self.comp, self.model)
        except Exception:
            self.tp, self.pp = None, None
            self.mode = "V"

    def kwargs(self, explicit_permeances=None):
        kw = dict(feed_temperature=self.t_feed, composition=self.comp, precision=self.precision,
                  permeate_temperature=self.tp, permeate_pressure=self.pp, calculation_type=self.model)
        if explicit_permeances is None:
            explicit_permeances = not self.from_membrane
        if explicit_permeances:
            kw["first_component_permeance"] = self.p1
            kw["second_component_permeance"] = self.p2
        return kw

    def describe(self):
        d = {"mixture": self.mdesc, "model": self.model, "T": self.t_feed, "x": describe_composition(self.comp),
             "mode": self.mode, "Tp": self.tp, "pp": self.pp, "P": [self.p1.value, self.p2.value],
             "precision": self.precision, "permeances_from_membrane": self.from_membrane}
        if self.from_membrane:
            d["membrane"] = describe_membrane(self.membrane)
        return d


def retargeted(rng, membrane, mixture):
    """a Pervaporation object that was built for, and used with, ANOTHER membrane and mixture and is then re-pointed to the
    given ones by plain attribute assignment (a user working through several systems with one object)"""
    from pyvaporation.pervaporation import Pervaporation

    other_mix = getattr(Mixtures, rng.choice([n for n in BUILTIN_MIXTURES if getattr(Mixtures, n) is not mixture]))
    other_mem = gen_membrane(rng, other_mix)
    pv = Pervaporation(other_mem, other_mix)
    try:
        pv.calculate_partial_fluxes(330.0, Composition(p=0.4, type=rng.choice(["weight", "molar"])), 1e-4)
    except Exception:
        pass
    pv.membrane = membrane
    pv.mixture = mixture
    return pv


def refmodel_permeance_kg(permeance, component):
    from . import refmodel

    return refmodel.permeance_kg(permeance.value, permeance.units, component.molecular_weight)


# --------------------------------------------------------------------------- bundled (real) membranes
def load_bundled(tmpdir):
    """the membranes shipped with the repository's tests, loaded from a COPY (Membrane.load creates a results directory)
    -> [(membrane, [curve sets])]"""
    import shutil
    from pathlib import Path

    from . import bootstrap

    src = bootstrap.repo_root() / "tests" / "default_membranes"
    dst = Path(tmpdir) / "default_membranes"
    if not dst.exists():
        shutil.copytree(src, dst, ignore=shutil.ignore_patterns("results"))
    out = []
    for d in sorted(dst.iterdir()):
        if not d.is_dir():
            continue
        try:
            m = Membrane.load(d)
        except Exception:
            continue
        if m.diffusion_curve_sets:
            m.diffusion_curve_sets = [cs for cs in m.diffusion_curve_sets if len(cs.diffusion_curves) > 0]
        if m.diffusion_curve_sets:
            out.append(m)
    return out
