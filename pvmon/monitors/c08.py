"""C08 - all entry points answer the same question identically (incl. model choice)."""
import math

from .. import gen, guards, proc

PROP = "C08"
LEVEL = "exploration"
RULE = (
    "case A = one feed state on a membrane-backed Pervaporation object: mixture x {NRTL, UNIQUAC} x permeate mode x T x "
    "mass-fraction feed x precision; the standalone flux calculation, calculate_permeate_composition, "
    "calculate_separation_factor, a one-point ideal_diffusion_curve and step 0 of both ideal process models are all "
    "executed and compared, and the flux calculation made INSIDE each helper is recorded (arguments). case B = one "
    "process run of any of the 4 kinds: every reported step is re-computed by a standalone flux calculation at the "
    "reported state, and the derived metrics are recomputed from their definitions. non-trivial = UNIQUAC or a permeate "
    "condition present (NRTL+vacuum is the default path); distinct = distinct inputs"
)
ASSUMPTIONS = [
    "bitwise comparison is meaningful because all entry points are given identical explicit arguments (mass-fraction feed) and the library is deterministic (C20)",
]
EPS = 2.0**-52
SHARD_TIMEOUT = {"quick": 1500, "thorough": 14000}


def shards(tier, seed):
    na, ni, nn = {"quick": (120, 25, 20), "thorough": (6000, 1200, 800)}[tier]
    return [{"n_state": na, "n_ideal": ni, "n_nonideal": nn} for _ in range(16)]


def pair(j):
    return float(j[0]), float(j[1])


def _guard(fn):
    try:
        with guards.budget(proc.SOFT_BUDGET):
            return "ok", fn()
    except guards.BudgetExceeded:
        return "slow", None
    except Exception as e:
        return "raised", e


def state_case(rep, spec, index):
    from pyvaporation.conditions import Conditions

    rng = gen.case_rng(PROP, spec["seed"], spec["shard"], index)
    fc = gen.FluxCase(rng, p_membrane=1.0, modes=["V", "T", "T", "P", "Psmall", "P0"], edge=0.02)
    fc.comp = gen.to_weight_exact(fc.comp, fc.mix)
    fc.precision = gen.loguniform(rng, 1e-7, 1e-3)
    case = dict(fc.describe(), index=index)
    pv, T, x, tp, pp, prec, model = fc.pv, fc.t_feed, fc.comp, fc.tp, fc.pp, fc.precision, fc.model
    with guards.tap() as inner:
        st, j = _guard(lambda: pv.calculate_partial_fluxes(T, x, prec, tp, pp, calculation_type=model))
    inner = list(inner)
    rep.case(case, nontrivial=(st == "ok" and (model == "UNIQUAC" or fc.mode != "V")), cls=f"state|{model}|{fc.mode}")
    rep.count("standalone_" + st)
    if st != "ok":
        return
    j = pair(j)
    y_ref = j[0] / (j[0] + j[1])
    if not (0 <= y_ref <= 1):
        # the returned fluxes have no valid composition (a slightly negative flux at the last evaluation): the helpers
        # legitimately refuse to build one, there is nothing derived to compare
        rep.count("standalone_fluxes_without_valid_composition_skipped")
        return
    # the selected activity model is honoured: the fluxes obey the flux equations of THAT model at the permeate
    # composition they were evaluated at (all entry points share one routine, so agreement alone cannot show this)
    if inner and all(math.isfinite(v) for v in j):
        from . import c02

        ystar = inner[-1][0].p
        ok_any = False
        det = {}
        for basis in (("weight", "molar") if pp is not None else ("weight",)):
            ref, pf, perm = c02.ref_fluxes(fc, ystar, fc.p1.value, fc.p2.value, basis)
            res = [abs(j[i] - float(ref[i])) for i in (0, 1)]
            tol = [64 * EPS * (fc.p1.value, fc.p2.value)[i] * max(abs(float(pf[i])), abs(float(perm[i]))) for i in (0, 1)]
            det[basis] = {"ref": [float(ref[0]), float(ref[1])], "residual": res}
            ok_any = ok_any or (res[0] <= tol[0] and res[1] <= tol[1])
        rep.require("the selected activity model is honoured on both sides of the membrane", ok_any, case, dict(det, fluxes=j, ystar=ystar))
    # the public inner routine, called directly the way the solver calls it, at the permeate composition the solver stopped at
    if inner:
        ystar_c = inner[-1][0]
        st_d, j_d = _guard(lambda: pv.get_partial_fluxes_from_permeate_composition(fc.p1, fc.p2, ystar_c, x, T, tp, pp, model))
        rep.require("public driving-force routine called directly at the converged permeate composition returns the standalone fluxes (bitwise)",
                    st_d == "ok" and pair(j_d) == j, case, {"direct": pair(j_d) if st_d == "ok" else repr(j_d), "standalone": j})
    # the same object asked about the same state with the OTHER model in between: both answers must equal those of
    # fresh objects (the selected activity model is honoured, whatever was asked before)
    from pyvaporation.pervaporation import Pervaporation

    other = "UNIQUAC" if model == "NRTL" else "NRTL"
    st_o, j_o = _guard(lambda: pv.calculate_partial_fluxes(T, x, prec, tp, pp, calculation_type=other))
    st_f, j_f = _guard(lambda: Pervaporation(fc.membrane, fc.mix).calculate_partial_fluxes(T, x, prec, tp, pp, calculation_type=other))
    if st_o == "ok" and st_f == "ok":
        rep.require("same object, other model: equals a fresh object's answer (bitwise)", pair(j_o) == pair(j_f), dict(case, second_model=other),
                    {"same_object": pair(j_o), "fresh_object": pair(j_f)})
    elif "slow" not in (st_o, st_f):
        rep.require("same object, other model: equals a fresh object's answer (bitwise)", st_o == st_f, dict(case, second_model=other), {"same_object": st_o, "fresh_object": st_f})
    st_a, j_a = _guard(lambda: pv.calculate_partial_fluxes(T, x, prec, tp, pp, calculation_type=model))
    if st_a == "ok":
        rep.require("same object, first model again: unchanged (bitwise)", pair(j_a) == j, case, {"first": j, "again": pair(j_a)})

    def same_args(name, taps):
        rep.require(f"{name}: exactly one flux calculation inside", len(taps) == 1, case, {"calls": len(taps)})
        if not taps:
            return
        b = guards.bind_calc_args(*taps[0])
        ok = (b.get("calculation_type", "NRTL") == model and b.get("precision") == prec
              and b.get("permeate_temperature") == tp and b.get("permeate_pressure") == pp
              and not isinstance(b.get("first_component_permeance"), str)
              and not isinstance(b.get("second_component_permeance"), str)
              and b.get("feed_temperature") == T)
        rep.require(f"{name}: inner flux calculation receives the caller's model, precision and permeate condition", ok, case,
                    {k: repr(v)[:60] for k, v in b.items() if k != "composition"})

    # permeate-composition helper
    with guards.calc_tap() as taps:
        st, y = _guard(lambda: pv.calculate_permeate_composition(T, x, prec, tp, pp, model))
    if st == "ok":
        same_args("calculate_permeate_composition", taps)
        rep.check("helper permeate composition = J1/(J1+J2) of the standalone fluxes", abs(y.p - y_ref), 2 * EPS * y_ref, case, {"helper": y.p, "ref": y_ref})
        rep.require("helper permeate composition is a mass fraction", y.type == "weight", case)
    else:
        rep.require("helper has the same outcome as the standalone calculation", st == "slow", case, {"helper": "permeate composition", "error": repr(y)})
    # separation-factor helper
    with guards.calc_tap() as taps:
        st, sf = _guard(lambda: pv.calculate_separation_factor(T, x, tp, pp, prec, model))
    if st == "ok" and 0 < y_ref < 1:
        same_args("calculate_separation_factor", taps)
        sf_ref = (y_ref / (1 - y_ref)) / (x.p / (1 - x.p))
        cond = 1 + 1 / (1 - y_ref) + 1 / (1 - x.p) + 1 / y_ref + 1 / x.p
        rep.check("separation factor = (y1/y2)/(x1/x2) of the standalone fluxes", abs(sf - sf_ref), 8 * EPS * cond * abs(sf_ref), case, {"helper": float(sf), "ref": sf_ref})
    elif st == "raised":
        rep.require("helper has the same outcome as the standalone calculation", isinstance(sf, ZeroDivisionError), case, {"helper": "separation factor", "error": repr(sf)})
    # one-point ideal curve
    with guards.calc_tap() as taps:
        st, curve = _guard(lambda: pv.ideal_diffusion_curve(T, (x,) if index % 3 == 0 else [x], tp, pp, prec, model))
    if st == "ok":
        if index % 4 == 0:
            proc.plot_everything(curve)  # looking at the curve first must not change what it reports
        same_args("ideal_diffusion_curve", taps)
        rep.require("one-point ideal curve reports the standalone fluxes (bitwise)", pair(curve.partial_fluxes[0]) == j, case,
                    {"curve": pair(curve.partial_fluxes[0]), "standalone": j})
        curve_metrics(rep, case, curve)
    else:
        rep.require("helper has the same outcome as the standalone calculation", st == "slow", case, {"helper": "ideal curve", "error": repr(curve)})
    # the same state given as a mole fraction: the curve metrics must still be in one consistent basis
    xm = gen.to_molar_exact(x, fc.mix)
    st, sfm = _guard(lambda: pv.calculate_separation_factor(T, xm, tp, pp, prec, model))
    if st == "ok" and 0 < y_ref < 1 and math.isfinite(float(sfm)):
        sf_ref = (y_ref / (1 - y_ref)) / (x.p / (1 - x.p))
        cond_ = 1 + 1 / (1 - y_ref) + 1 / (1 - x.p) + 1 / y_ref + 1 / x.p + 1 / min(xm.p, 1 - xm.p)
        rep.check("separation-factor helper with a mole-fraction feed: still (y1/y2)/(x1/x2) in ONE basis", abs(float(sfm) - sf_ref),
                  (64 * EPS * cond_ + 8 * prec * (1 + 1 / min(y_ref, 1 - y_ref))) * abs(sf_ref), dict(case, feed="molar"), {"helper": float(sfm), "ref": sf_ref})
    # mixed-basis curves in every order (round 9: a shortcut keyed on the basis of the FIRST point only)
    mixed = {0: [xm, x], 1: [x, xm], 2: [x, xm, x, xm]}[index % 3 if index % 2 else 0]
    basis_label = "+".join("molar" if c is xm else "weight" for c in mixed)
    rep.count("mixed_basis_curve:" + basis_label)
    st, curve2 = _guard(lambda: pv.ideal_diffusion_curve(T, mixed, tp, pp, prec, model))
    if st == "ok":
        curve_metrics(rep, dict(case, curve_basis=basis_label), curve2)
        if index % 3 == 0:
            # the user corrects a row of the returned curve in place (a mistyped flux) and appends a point: the derived
            # quantities of that same object must follow its fluxes
            f0 = pair(curve2.partial_fluxes[0])
            a, b = rng.uniform(0.2, 5.0), rng.uniform(0.2, 5.0)
            editable = isinstance(curve2.partial_fluxes, list) and isinstance(curve2.feed_compositions, list) and isinstance(curve2.permeances, list)
            if editable:
                curve2.partial_fluxes[0] = (f0[0] * a, f0[1] * b)
                if index % 2 == 0:
                    curve2.partial_fluxes.append((f0[0] * b, f0[1] * a))
                    curve2.feed_compositions.append(curve2.feed_compositions[0])
                    curve2.permeances.append(curve2.permeances[0])
                ce = dict(case, curve_basis=basis_label, flux_rows_edited_in_place=[a, b], point_appended=index % 2 == 0)
                try:
                    curve_metrics(rep, ce, curve2)
                    rep.require("derived quantities of a curve can still be read after its flux rows were edited in place", True, ce)
                except Exception as e:
                    rep.require("derived quantities of a curve can still be read after its flux rows were edited in place", False, ce, {"error": repr(e)})
            else:
                rep.count("curve_rows_not_editable")
    if rng.random() < 0.25:
        try:
            edit_then_compare(rep, case, fc, rng, T, x, tp, pp, prec, model)
        except Exception as e:
            rep.harness_error(f"C08 edit-then-compare: {e!r}", e)
        return
    # step 0 of both ideal processes
    cond = Conditions(membrane_area=gen.loguniform(rng, 1e-2, 10), initial_feed_temperature=T, initial_feed_amount=gen.loguniform(rng, 1, 100),
                      initial_feed_composition=x, permeate_temperature=tp, permeate_pressure=pp)
    for kind in ("ideal_isothermal_process", "ideal_non_isothermal_process"):
        with guards.calc_tap() as taps:
            st, pm = _guard(lambda: getattr(pv, kind)(conditions=cond, number_of_steps=1, delta_hours=1e-9, precision=prec, calculation_type=model))
        if st == "ok":
            same_args(kind, taps)
            rep.require("step 0 of the ideal process models reports the standalone fluxes (bitwise)", pair(pm.partial_fluxes[0]) == j, case,
                        {"kind": kind, "process": pair(pm.partial_fluxes[0]), "standalone": j})
        elif st == "raised":
            rep.count("process_step0_raised")


def edit_then_compare(rep, case, fc, rng, T, x, tp, pp, prec, model):
    """objects used once, edited in place, used again: the answer must be that of freshly built equal objects"""
    import copy

    from pyvaporation.conditions import Conditions
    from pyvaporation.experiments import IdealExperiment, IdealExperiments
    from pyvaporation.membrane import Membrane
    from pyvaporation.permeance import Permeance
    from pyvaporation.pervaporation import Pervaporation

    pv = fc.pv
    f1 = rng.uniform(1.4, 3.0)
    for e in fc.membrane.ideal_experiments.experiments:  # re-measured permeances, same temperatures
        e.permeance = Permeance(value=e.permeance.value * f1, units=e.permeance.units)
    fresh_mem = Membrane(name=fc.membrane.name, ideal_experiments=IdealExperiments(experiments=[
        IdealExperiment(name=e.name, temperature=e.temperature, component=e.component, permeance=Permeance(value=e.permeance.value, units=e.permeance.units),
                        activation_energy=e.activation_energy) for e in fc.membrane.ideal_experiments.experiments]))
    a = _guard(lambda: pv.calculate_partial_fluxes(T, x, prec, tp, pp, calculation_type=model))
    b = _guard(lambda: Pervaporation(fresh_mem, fc.mix).calculate_partial_fluxes(T, x, prec, tp, pp, calculation_type=model))
    if "slow" not in (a[0], b[0]):
        same = a[0] == b[0] and (a[0] != "ok" or pair(a[1]) == pair(b[1]))
        rep.require("after an in-place edit of the membrane's experiments the object answers like freshly built equal objects (bitwise)", same, case,
                    {"edited_objects": [a[0], pair(a[1]) if a[0] == "ok" else repr(a[1])], "fresh_objects": [b[0], pair(b[1]) if b[0] == "ok" else repr(b[1])]})
    cond = Conditions(membrane_area=1.0, initial_feed_temperature=T, initial_feed_amount=10.0, initial_feed_composition=x, permeate_temperature=tp, permeate_pressure=pp)
    kw = dict(number_of_steps=3, delta_hours=1e-4, precision=prec, calculation_type=model)
    _guard(lambda: pv.ideal_non_isothermal_process(conditions=cond, **kw))
    cond.initial_feed_amount = 25.0
    cond.membrane_area = 2.5
    fresh_cond = Conditions(membrane_area=2.5, initial_feed_temperature=T, initial_feed_amount=25.0, initial_feed_composition=x, permeate_temperature=tp, permeate_pressure=pp)
    a = _guard(lambda: pv.ideal_non_isothermal_process(conditions=cond, **kw))
    b = _guard(lambda: Pervaporation(fresh_mem, fc.mix).ideal_non_isothermal_process(conditions=fresh_cond, **kw))
    if "slow" not in (a[0], b[0]):
        same = a[0] == b[0] and (a[0] != "ok" or proc.model_fingerprint(a[1]) == proc.model_fingerprint(b[1]))
        rep.require("after an in-place edit of the conditions the object answers like freshly built equal objects (bitwise)", same, case,
                    {"edited_objects": a[0], "fresh_objects": b[0],
                     "difference": proc.first_difference(proc.model_fingerprint(a[1]), proc.model_fingerprint(b[1])) if a[0] == b[0] == "ok" else None})


def curve_metrics(rep, case, curve):
    n = len(curve.feed_compositions)
    yc = curve.permeate_composition
    try:
        sfs = curve.get_separation_factor
        psi = curve.get_psi
        sel = curve.get_selectivity
    except ZeroDivisionError:  # a clamped (zero) permeance or a pure permeate: the metric is undefined there
        rep.count("curve_metric_undefined(zero division)")
        return
    m1, m2 = curve.mixture.first_component.molecular_weight, curve.mixture.second_component.molecular_weight
    for i in range(n):
        j = pair(curve.partial_fluxes[i])
        y = j[0] / (j[0] + j[1])
        rep.check("curve: permeate composition = J1/(J1+J2)", abs(yc[i].p - y), 2 * EPS * abs(y), case, {"got": yc[i].p, "ref": y})
        xw = gen.to_weight_exact(curve.feed_compositions[i], curve.mixture).p
        if 0 < y < 1 and 0 < xw < 1:
            ref = (y / (1 - y)) / (xw / (1 - xw))
            cond = 1 + 1 / (1 - y) + 1 / (1 - xw) + 1 / y + 1 / xw
            rep.check("curve: separation factor = (y1/y2)/(x1/x2) in mass basis", abs(sfs[i] - ref), 16 * EPS * cond * abs(ref), case, {"got": float(sfs[i]), "ref": ref})
            rep.check("curve: PSI = total flux x (separation factor - 1)", abs(psi[i] - (j[0] + j[1]) * (sfs[i] - 1)), 8 * EPS * abs((j[0] + j[1])) * (abs(sfs[i]) + 1), case,
                      {"got": float(psi[i])})
        p = curve.permeances[i]
        if p[1].value > 0:
            ref = (p[0].value / m1) / (p[1].value / m2)
            rep.check("curve: selectivity = molar permeance ratio", abs(sel[i] - ref), 16 * EPS * abs(ref), case, {"got": float(sel[i]), "ref": ref})


def process_case(rep, spec, index, kinds):
    rng = gen.case_rng(PROP, spec["seed"], spec["shard"], index)
    sc = proc.Scenario(rng, kinds=kinds, max_steps=15, nonideal_orders=0)  # cheap fits: the fits are C05's subject
    case = dict(sc.describe(), index=index)
    st, model = sc.run()
    rep.case(case, nontrivial=(st == "ok" and (sc.model == "UNIQUAC" or sc.mode != "V")), cls="process|" + sc.cls())
    rep.count("process_" + st)
    if st != "ok":
        return
    n = len(model.time)
    for k in range(n):
        c = dict(case, step=k)
        p = model.permeances[k]
        stk, j = _guard(lambda: sc.pv.calculate_partial_fluxes(
            feed_temperature=model.feed_temperature[k], composition=model.feed_compositions[k], precision=sc.precision,
            permeate_temperature=sc.tp, permeate_pressure=sc.pp, first_component_permeance=p[0],
            second_component_permeance=p[1], calculation_type=sc.model))
        if stk == "ok":
            rep.require("every process step's fluxes = standalone calculation at the reported state (bitwise)",
                        pair(j) == pair(model.partial_fluxes[k]), c, {"standalone": pair(j), "reported": pair(model.partial_fluxes[k])})
        elif stk == "raised":
            rep.require("every process step's fluxes = standalone calculation at the reported state (bitwise)", False, c, {"standalone raised": repr(j)})
        jr = pair(model.partial_fluxes[k])
        y = jr[0] / (jr[0] + jr[1])
        rep.check("process: permeate composition = J1/(J1+J2)", abs(model.permeate_composition[k].p - y), 2 * EPS * abs(y), c, {"got": model.permeate_composition[k].p, "ref": y})
    try:
        sfs, psi, sel = model.get_separation_factor, model.get_psi, model.get_selectivity
    except ZeroDivisionError:
        rep.count("process_metric_undefined(zero division)")
        return
    for k in range(n):
        c = dict(case, step=k)
        jr = pair(model.partial_fluxes[k])
        y, xw = model.permeate_composition[k].p, model.feed_compositions[k].p
        if 0 < y < 1 and 0 < xw < 1:
            ref = (y / (1 - y)) / (xw / (1 - xw))
            cond = 1 + 1 / (1 - y) + 1 / (1 - xw) + 1 / y + 1 / xw
            rep.check("process: separation factor = (y1/y2)/(x1/x2) in mass basis", abs(sfs[k] - ref), 16 * EPS * cond * abs(ref), c, {"got": float(sfs[k]), "ref": ref})
            rep.check("process: PSI = total flux x (separation factor - 1)", abs(psi[k] - (jr[0] + jr[1]) * (sfs[k] - 1)),
                      8 * EPS * abs(jr[0] + jr[1]) * (abs(sfs[k]) + 1), c, {"got": float(psi[k])})
        p = model.permeances[k]
        if p[1].value > 0:
            rep.check("process: selectivity = permeance ratio", abs(sel[k] - p[0].value / p[1].value), 4 * EPS * abs(sel[k]), c, {"got": float(sel[k])})


def run_shard(spec, rep):
    only = spec.get("only")
    plan = [(i, None) for i in range(spec["n_state"])]
    plan += [(100000 + i, proc.KINDS[:2]) for i in range(spec["n_ideal"])]
    plan += [(200000 + i, proc.KINDS[2:]) for i in range(spec["n_nonideal"])]
    for index, kinds in plan:
        if only is not None and index != only:
            continue
        if rep.n_violations >= 20:
            break
        try:
            if kinds is None:
                state_case(rep, spec, index)
            else:
                process_case(rep, spec, index, kinds)
        except Exception as e:
            rep.harness_error(f"C08 case {index}: {e!r}", e)


def finalize(agg, tier):
    out = []
    need = ["helper permeate composition = J1/(J1+J2) of the standalone fluxes",
            "separation factor = (y1/y2)/(x1/x2) of the standalone fluxes",
            "one-point ideal curve reports the standalone fluxes (bitwise)",
            "step 0 of the ideal process models reports the standalone fluxes (bitwise)",
            "every process step's fluxes = standalone calculation at the reported state (bitwise)",
            "calculate_permeate_composition: inner flux calculation receives the caller's model, precision and permeate condition"]
    for o in need:
        if agg["oracles"].get(o, {}).get("checked", 0) < 50:
            out.append(f"oracle '{o}' evaluated fewer than 50 times")
    if not any(k.startswith("state|UNIQUAC") for k in agg["classes"]):
        out.append("UNIQUAC never selected")
    return out


LEVEL_TEXT = (
    "Exploration: for thousands of feed states all public entry points that answer the same question are executed on the "
    "same membrane-backed object with identical explicit arguments and compared bitwise (fluxes) or at rounding level "
    "(derived quantities); the arguments of the flux calculation made inside every helper are recorded and must carry the "
    "caller's activity model, precision and permeate condition; every step of hundreds of process runs of all four kinds "
    "is re-computed standalone at the reported state (bitwise); the public driving-force routine called directly at the "
    "converged permeate composition must return the standalone fluxes (bitwise). Held means no disagreement on this run's executions."
)
LEVEL_NOTE = "Trusted: determinism of the library (decided separately by C20); the wrapper that records inner calls sits on Pervaporation.calculate_partial_fluxes."
TECHNIQUE = "runtime monitoring: boundary recorder of inner calls + cross-entry-point agreement oracle + per-step standalone recomputation over seeded executions"
