"""C13 - latent and cooling heats are consistent with vapour pressure and heat capacity."""
import math

from .. import gen

PROP = "C13"
LEVEL = "exploration"
RULE = (
    "case = (component, T, T0, T1, T2): built-in component or synthetic Antoine / Frost constants (Antoine c in "
    "-150..50, so the pole is approached to within 20 K; 30 % with b of either sign / Frost c up to +-1.5e6, i.e. ln Psat "
    "not monotone in T) with a random cubic heat-capacity polynomial; temperatures "
    "200-500 K. Clausius-Clapeyron is checked with Richardson-extrapolated central differences of the real "
    "get_vapor_pressure, the cooling heat against 5-point Gauss-Legendre quadrature of the real get_specific_heat, "
    "plus additivity / antisymmetry / empty interval / derivative. non-trivial = every case (T1 != T0); distinct = "
    "distinct (constants, temperatures)"
)
ASSUMPTIONS = ["R = pyvaporation.utils.R", "ln Psat is smooth on [T-0.2, T+0.2] (|T + c| > 20 K for Antoine)"]
H = 0.1
_GL_X = [0.0, 0.5384693101056831, -0.5384693101056831, 0.906179845938664, -0.906179845938664]
_GL_W = [0.5688888888888889, 0.47862867049936647, 0.47862867049936647, 0.23692688505618908, 0.23692688505618908]


def shards(tier, seed):
    n = {"quick": 1500, "thorough": 120000}[tier]
    return [{"n": n} for _ in range(16)]


def _richardson(f, x, h):
    d1 = (f(x + h) - f(x - h)) / (2 * h)
    d2 = (f(x + h / 2) - f(x - h / 2)) / h
    return (4 * d2 - d1) / 3


def _successors(rep, spec, R):
    """short-lived components in quick succession (a scan that builds one candidate per iteration): each one dies before the
    next is built - CPython hands the freed addresses out again at once - and each is FIRST asked for its latent heat at the
    same temperature.  Every answer is that component's own R T^2 dlnPsat/dT."""
    import gc
    import random

    rng = random.Random(f"C13:successors:{spec['seed']}:{spec['shard']}")
    reused = 0
    for round_ in range(40):
        tg = rng.choice(gen.TEMPERATURE_GRID)
        last_ids = None
        for k in range(6):
            comp = gen.synth_component(rng, "S")
            v = comp.vapour_pressure_constants
            ids = (id(comp), id(v))
            reused += int(ids == last_ids)
            last_ids = ids
            if v.type == "antoine" and abs(tg + v.c) <= 20:
                del comp, v
                continue
            case = {"index": f"successors-{round_}-{k}", "component": gen.describe_component(comp), "T": tg}
            try:
                hv = comp.get_vaporisation_heat(tg)
                ref = R * tg * tg * _richardson(lambda x: math.log(comp.get_vapor_pressure(x)), tg, H) / 1000
                noise = 256 * 2.0**-52 * (1 + abs(math.log(comp.get_vapor_pressure(tg)))) / H * R * tg * tg / 1000
                rep.check("Hvap = R T^2 dlnPsat/dT", abs(hv - ref), 1e-9 * abs(ref) + noise, case, {"got": hv, "ref": ref})
            except Exception as e:
                rep.violation("valid call raised", case, {"error": repr(e)})
            del comp, v
            gc.collect(0)
    rep.count("successor_components_at_a_reused_address", reused)


def run_shard(spec, rep):
    from pyvaporation.components import Components
    from pyvaporation.utils import R

    if spec.get("only") is None:
        _successors(rep, spec, R)

    only = spec.get("only")
    for index in range(spec["n"]):
        if only is not None and index != only:
            continue
        rng = gen.case_rng(PROP, spec["seed"], spec["shard"], index)
        if rng.random() < 0.3:
            comp = getattr(Components, rng.choice(gen.BUILTIN_COMPONENTS))
            cls = "builtin-" + comp.vapour_pressure_constants.type
        else:
            comp = gen.synth_component(rng, "S")
            v = comp.vapour_pressure_constants
            if v.type == "antoine" and rng.random() < 0.5:
                v.c = rng.uniform(-150, 50)
            if rng.random() < 0.3:  # wide ranges: constants for which ln Psat is not monotone / falls with T
                if v.type == "antoine":
                    v.b = rng.uniform(-3000, 1000)
                else:
                    v.b, v.c = rng.uniform(-8000, 2000), rng.uniform(-1.5e6, 1.5e6)
            h = comp.heat_capacity_constants
            h.a, h.b, h.c, h.d = rng.uniform(-200, 300), rng.uniform(-1, 1), rng.uniform(-3e-3, 3e-3), rng.uniform(-5e-6, 5e-6)
            cls = "synthetic-" + v.type
        if rng.random() < 0.25:
            import pickle

            comp = pickle.loads(pickle.dumps(comp))  # what joblib / multiprocessing / a cache hands back: equal, not identical strings
            cls += "-pickled"
        if comp.name == "S" and rng.random() < 0.2:
            # edit-then-use: the component is used once, then its vapour-pressure equation is replaced in place (type and
            # constants of another synthetic component, field by field or as a new object); everything below is judged on
            # the edited object
            try:
                comp.get_vaporisation_heat(300.0), comp.get_vapor_pressure(300.0)
            except Exception:
                pass
            donor = gen.synth_component(rng, "D").vapour_pressure_constants
            if rng.random() < 0.5:
                w = comp.vapour_pressure_constants
                w.a, w.b, w.c, w.type = donor.a, donor.b, donor.c, gen.fresh_str(donor.type)
            else:
                comp.vapour_pressure_constants = donor
            cls += "-edited"
        v = comp.vapour_pressure_constants
        while True:
            t = rng.uniform(200, 500)
            if v.type != "antoine" or abs(t + v.c) > 20:
                break
        if rng.random() < 0.3:
            # few keys: the FIRST request a short-lived component ever sees is made at one of four temperatures (objects die
            # between cases, addresses and temperatures recur)
            tg = rng.choice(gen.TEMPERATURE_GRID)
            if v.type != "antoine" or abs(tg + v.c) > 20:
                t = tg
        t0, t1, t2 = (rng.uniform(200, 500) for _ in range(3))
        case = {"index": index, "component": gen.describe_component(comp), "T": t, "T012": [t0, t1, t2]}
        rep.case(case, cls=cls)
        try:
            hv = comp.get_vaporisation_heat(t)  # the very first call on this object
            if not all(0 < comp.get_vapor_pressure(t + d) < float("inf") for d in (-H, 0.0, H)):
                rep.count("skipped_vapour_pressure_out_of_float_range")
                continue
            ref = R * t * t * _richardson(lambda x: math.log(comp.get_vapor_pressure(x)), t, H) / 1000
            # the numerical derivative carries the round-off of ln Psat divided by the step (matters where Hvap passes through 0)
            noise = 256 * 2.0**-52 * (1 + abs(math.log(comp.get_vapor_pressure(t)))) / H * R * t * t / 1000
            rep.check("Hvap = R T^2 dlnPsat/dT", abs(hv - ref), 1e-9 * abs(ref) + noise, case, {"got": hv, "ref": ref})
            c01 = comp.get_cooling_heat(t0, t1)
            c12 = comp.get_cooling_heat(t1, t2)
            c02 = comp.get_cooling_heat(t0, t2)
            c10 = comp.get_cooling_heat(t1, t0)
            hc = comp.heat_capacity_constants
            scale = sum(abs(k) * max(abs(x) ** (i + 1) for x in (t0, t1, t2)) / (i + 1)
                        for i, k in enumerate((hc.a, hc.b, hc.c, hc.d)))
            rep.check("cooling heat additive", abs(c01 + c12 - c02), 1e-13 * scale, case, {"c01": c01, "c12": c12, "c02": c02})
            rep.check("cooling heat antisymmetric", abs(c01 + c10), 1e-12 * scale, case, {"c01": c01, "c10": c10})
            rep.require("cooling heat zero on empty interval", comp.get_cooling_heat(t0, t0) == 0, case)
            # integral of the real specific heat (Gauss-Legendre, exact for cubics)
            mid, half = (t0 + t1) / 2, (t0 - t1) / 2
            quad = half * sum(w * comp.get_specific_heat(mid + half * x) for x, w in zip(_GL_X, _GL_W))
            rep.check("cooling heat = integral of specific heat", abs(c01 - quad), 1e-13 * scale, case, {"got": c01, "quadrature": quad})
            if index % 5 == 0:
                import numpy

                ts = numpy.array([t0, t1, t2, t])
                vec = comp.get_cooling_heat(ts, t1)
                ref_vec = [comp.get_cooling_heat(float(v), t1) for v in ts]
                ok = hasattr(vec, "__len__") and len(vec) == 4 and all(abs(float(a) - b) <= 1e-13 * scale for a, b in zip(vec, ref_vec))
                rep.require("array arguments are evaluated element-wise (cooling heat)", ok, case, {"vectorised": repr(vec)[:160], "element-wise": ref_vec})
                for name in ("get_vapor_pressure", "get_vaporisation_heat", "get_specific_heat"):
                    tsafe = numpy.array([t, t + 3.0, t - 2.0])
                    vec = getattr(comp, name)(tsafe)
                    ref_vec = [float(getattr(comp, name)(float(v))) for v in tsafe]
                    # rounding differs between the array and the scalar evaluation by a few ulp of the largest TERM (the value itself
                    # may be a small difference of large terms: cp near a zero of its cubic, a Frost latent heat near b = -2c/T)
                    hc, vc = comp.heat_capacity_constants, comp.vapour_pressure_constants
                    tm = float(max(abs(tsafe)))
                    terms = {"get_specific_heat": abs(hc.a) + abs(hc.b) * tm + abs(hc.c) * tm**2 + abs(hc.d) * tm**3,
                             "get_vaporisation_heat": R * (abs(vc.b) + 2 * abs(vc.c) / float(min(abs(tsafe)))) / 1000 if vc.type == "frost" else 0.0,
                             "get_vapor_pressure": 0.0}[name]
                    ok = hasattr(vec, "__len__") and len(vec) == 3 and all(abs(float(a) - b) <= 1e-12 * (abs(b) + terms + 1e-300) for a, b in zip(vec, ref_vec))
                    rep.require("array arguments are evaluated element-wise (" + name + ")", ok, case, {"vectorised": repr(vec)[:160], "element-wise": ref_vec})
            d = _richardson(lambda x: comp.get_cooling_heat(x, t1), t0, H)
            cp = comp.get_specific_heat(t0)
            rep.check("d(cooling heat)/d(upper limit) = cp", abs(d - cp), 1e-12 * scale / H + 1e-9 * abs(cp), case, {"deriv": d, "cp": cp})
        except Exception as e:
            rep.violation("valid call raised", case, {"error": repr(e)})


def finalize(agg, tier):
    need = ["builtin-antoine", "synthetic-antoine", "synthetic-frost"]
    return [f"workload class {c} not exercised" for c in need if not any(k.startswith(c) for k in agg["classes"])]


LEVEL_TEXT = (
    "Exploration: the real Component methods are executed on built-in and synthetic Antoine/Frost constant sets at "
    "200-500 K; the heat of vaporisation is compared with a Richardson-extrapolated derivative of the real vapour "
    "pressure (1e-9 relative), the cooling heat with Gauss-Legendre quadrature of the real specific heat (exact for "
    "cubic polynomials) and with its algebraic laws; a fifth of the synthetic components gets another vapour-pressure equation assigned in place after a first use; numpy-array arguments must give the element-wise results, and a burst "
    "of concurrent calls from 4 threads the serial ones. Held means no oracle failed on this run's executions."
)
LEVEL_NOTE = "Trusted: numerical differentiation step 0.1 K (truncation < 1e-9 relative away from the Antoine pole); the sampled domain."
TECHNIQUE = "runtime monitoring: numerical-derivative and quadrature reference oracles on seeded executions of the real Component methods"
