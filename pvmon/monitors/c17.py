"""C17 - saved curves, functions, conditions and process models load back unchanged."""
import hashlib
import math
import os
import shutil
import sys
import tempfile
from pathlib import Path

from .. import gen, guards, proc

PROP = "C17"
LEVEL = "exploration"
RULE = (
    "case = one object saved and re-loaded through the real save / load methods in a fresh temporary directory: (K) "
    "diffusion curves from ideal modelling / from permeances in 3 units / from fluxes, molar or mass abscissae, values "
    "1e-9..1e3, comments with commas, quotes or None; (F) permeance functions of orders 0..3 (binary and JSON); (I) initial "
    "conditions (JSON); (P) process models of all 4 kinds x permeate modes x both storage modes, saved 2..6 times under one "
    "membrane directory, with natural and with forced (frozen clock) directory-name collisions. An audit hook records "
    "every write-open / mkdir / remove / rename during each save, and every pre-existing process directory is hashed before "
    "and after. non-trivial = every case; distinct = distinct objects"
)
ASSUMPTIONS = [
    "built-in mixtures only (the file formats store the mixture by name)",
    "None and NaN denote the same absent value; a loaded process model may hold a scalar where the original holds a constant list",
]
EPS = 2.0**-52
REL = 1e-9
SHARD_TIMEOUT = {"quick": 1500, "thorough": 14000}

_audit = {"log": None}


def _hook(event, args):
    log = _audit["log"]
    if log is None:
        return
    try:
        if event == "open":
            path, mode = args[0], args[1]
            if isinstance(mode, str) and any(c in mode for c in "wax+") and isinstance(path, (str, bytes, os.PathLike)):
                log.append(("write", os.fspath(path)))
        elif event in ("os.mkdir", "os.remove", "os.rmdir", "os.rename", "shutil.rmtree", "os.truncate", "os.chmod"):
            log.append((event, os.fspath(args[0]) if isinstance(args[0], (str, bytes, os.PathLike)) else repr(args[0])))
    except Exception:
        pass

ANCHORS = [('process/process.py', 'process_path.mkdir(parents=True, exist_ok=False)', 'creation of the process directory'), ('process/process.py', 'self.initial_conditions.safe_save(', 'safe storage mode')]


def shards(tier, seed):
    nk, nf, np_ = {"quick": (25, 25, 10), "thorough": (1200, 1200, 500)}[tier]
    return [{"n_curve": nk, "n_func": nf, "n_proc": np_} for _ in range(16)]


def close(u, v, rel=REL):
    if u is None or (isinstance(u, float) and math.isnan(u)):
        return v is None or (isinstance(v, float) and math.isnan(v)) or (hasattr(v, "dtype") and math.isnan(float(v)))
    if v is None:
        return False
    u, v = float(u), float(v)
    if math.isnan(v):
        return False
    return abs(u - v) <= rel * max(abs(u), abs(v))


def tree_hash(root):
    h = {}
    for p in sorted(Path(root).rglob("*")):
        if p.is_file():
            h[str(p.relative_to(root))] = hashlib.sha1(p.read_bytes()).hexdigest()
        else:
            h[str(p.relative_to(root)) + "/"] = "dir"
    return h


# ------------------------------------------------------------------------------------------------ curves
def curve_case(rep, spec, index, tmp):
    from pyvaporation.diffusion_curve import DiffusionCurve, DiffusionCurveSet
    from pyvaporation.mixtures import Mixtures

    rng = gen.case_rng(PROP + "K", spec["seed"], spec["shard"], index)
    name = rng.choice(gen.BUILTIN_MIXTURES)
    mix = getattr(Mixtures, name)
    basis = rng.choice(["weight", "molar"])
    k = rng.randint(1, 7)
    comps = [gen.gen_composition(rng, mix, basis=basis, edge=0.02) for _ in range(k)]
    if k >= 2 and rng.random() < 0.15:
        comps[-1] = comps[0]  # a replicate measurement: the same composition (and below the same values) twice
        replicate = True
    else:
        replicate = False
    t = rng.uniform(283, 373)
    how = rng.choice(["permeances", "fluxes", "ideal", "both"])
    comment = rng.choice([None, "plain", 'with, comma', 'with "quotes"', "semi;colon, 'single'", "  spaces  ", "batch #3, 50% w/w", "# remark", "a\\b | c"])
    mname = rng.choice(["M 1"] * 3 + ["PVA/PAN #2", "Pervap(TM) 4100, sheet 2", 'a "quoted" membrane', "M-1;b", "100%", "membrane\u00e9"])
    tp = pp = None
    mode = rng.choice(["V", "T", "P"])
    if mode == "T":
        tp = rng.uniform(150, t - 5)
    elif mode == "P":
        pp = rng.uniform(0, 0.5)
    units = rng.choice(gen.UNITS)
    case = {"index": index, "what": "curve", "mixture": name, "basis": basis, "points": k, "how": how, "mode": mode, "units": units, "comment": comment, "membrane_name": mname}
    rep.case(case, cls=f"curve|{how}|{basis}|{mode}")
    perms = [(gen.permeance_in_units(gen.loguniform(rng, 1e-9, 1e3), units, mix.first_component),
              gen.permeance_in_units(gen.loguniform(rng, 1e-9, 1e3), units, mix.second_component)) for _ in comps]
    fluxes = [(gen.loguniform(rng, 1e-9, 1e3), gen.loguniform(rng, 1e-9, 1e3)) for _ in comps]
    if replicate:
        perms[-1], fluxes[-1] = perms[0], fluxes[0]
        case["replicate_point"] = True
    try:
        if how == "permeances":
            curve = DiffusionCurve(mixture=mix, membrane_name=mname, feed_temperature=t, feed_compositions=comps, permeances=perms, comments=comment)
        elif how == "fluxes":
            curve = DiffusionCurve(mixture=mix, membrane_name=mname, feed_temperature=t, feed_compositions=comps, partial_fluxes=fluxes,
                                   permeate_temperature=tp, permeate_pressure=pp, comments=comment)
        elif how == "both":
            curve = DiffusionCurve(mixture=mix, membrane_name=mname, feed_temperature=t, feed_compositions=comps, partial_fluxes=fluxes,
                                   permeances=perms, permeate_temperature=tp, permeate_pressure=pp, comments=comment)
        else:
            from pyvaporation.pervaporation import Pervaporation

            mem = gen.gen_membrane(rng, mix)
            mem.name = mname
            with guards.budget(proc.SOFT_BUDGET):
                curve = Pervaporation(mem, mix).ideal_diffusion_curve(t, comps, tp, pp)
    except (Exception, guards.BudgetExceeded):
        rep.count("curve_construction_failed")
        return
    path = Path(tmp) / f"curve_{index}.csv"
    _audit["log"] = log = []
    try:
        curve.save(path)
    finally:
        _audit["log"] = None
    outside = [e for e in log if not str(e[1]).startswith(str(tmp))]
    rep.require("saving writes only where it was told to", not outside and any(e[1] == str(path) for e in log), case, {"events": log[:6]})
    loaded = DiffusionCurveSet.load(path).diffusion_curves
    rep.require("a saved curve loads back as exactly one curve", len(loaded) == 1, case, {"curves": len(loaded)})
    if len(loaded) != 1:
        return
    b = loaded[0]
    bad = None
    if b.mixture is not curve.mixture:
        bad = {"what": "mixture"}
    elif len(b.feed_compositions) != len(curve.feed_compositions) or len(b.partial_fluxes) != k or len(b.permeances) != k:
        bad = {"what": "lengths"}
    elif not close(curve.feed_temperature, b.feed_temperature) or not close(curve.permeate_temperature, b.permeate_temperature) or not close(curve.permeate_pressure, b.permeate_pressure):
        bad = {"what": "temperatures / permeate condition", "orig": [curve.feed_temperature, curve.permeate_temperature, curve.permeate_pressure],
               "loaded": [b.feed_temperature, b.permeate_temperature, b.permeate_pressure]}
    elif str(b.membrane_name) != str(curve.membrane_name):
        bad = {"what": "membrane name", "loaded": b.membrane_name}
    else:
        for i in range(k):
            wa = gen.to_weight_exact(curve.feed_compositions[i], mix).p
            cb = b.feed_compositions[i]
            if cb.type != "weight" or abs(cb.p - wa) > 1e-9:
                bad = {"what": "composition (curves re-load as mass fractions)", "i": i, "orig_mass_fraction": wa, "loaded": [cb.p, cb.type]}
            for c in (0, 1):
                if not close(float(curve.partial_fluxes[i][c]), float(b.partial_fluxes[i][c])):
                    bad = {"what": "flux", "i": i, "orig": float(curve.partial_fluxes[i][c]), "loaded": float(b.partial_fluxes[i][c])}
                if b.permeances[i][c].units != curve.permeances[i][c].units or not close(curve.permeances[i][c].value, b.permeances[i][c].value):
                    bad = {"what": "permeance", "i": i, "orig": [curve.permeances[i][c].value, curve.permeances[i][c].units],
                           "loaded": [b.permeances[i][c].value, b.permeances[i][c].units]}
    rep.require("curve: save -> load returns the same curve", bad is None, case, bad)
    same_comment = (comment is None and (b.comments is None or (isinstance(b.comments, float) and math.isnan(b.comments)))) or \
        (how == "ideal") or str(b.comments) == str(comment)
    rep.require("curve: comment survives the round trip", same_comment, case, {"loaded": repr(b.comments)})
    if index % 3 == 0:
        # the file name is used again for another curve (results.csv overwritten by the next experiment): loading it must
        # give what is in the file now
        second = DiffusionCurve(mixture=mix, membrane_name=mname, feed_temperature=t, feed_compositions=list(curve.feed_compositions),
                                partial_fluxes=[(2.0 * float(f[0]) + 1e-6, 3.0 * float(f[1]) + 1e-6) for f in curve.partial_fluxes])
        second.save(path)
        again = DiffusionCurveSet.load(path).diffusion_curves
        ok = len(again) == 1 and all(close(float(second.partial_fluxes[i][c]), float(again[0].partial_fluxes[i][c])) for i in range(k) for c in (0, 1))
        rep.require("a file name used again: loading returns what the file holds now", ok, dict(case, reuse="curve path"),
                    {"expected_first_flux": [float(v) for v in second.partial_fluxes[0]], "loaded_first_flux": [float(v) for v in again[0].partial_fluxes[0]] if again else None})


# ------------------------------------------------------------------------------------------------ functions and conditions
def func_case(rep, spec, index, tmp):
    from pyvaporation.conditions import Conditions, TemperatureProgram
    from pyvaporation.mixtures import Composition
    from pyvaporation.optimizer import PervaporationFunction

    rng = gen.case_rng(PROP + "F", spec["seed"], spec["shard"], index)
    n, m = rng.randint(0, 3), rng.randint(0, 3)
    import numpy

    arr = [gen.loguniform(rng, 1e-9, 1e3) * rng.choice([1, -1])] + [rng.uniform(-5, 5) for _ in range(n)] + [rng.uniform(-5e3, 5e3) for _ in range(m + 1)]
    f = PervaporationFunction.from_array(numpy.array(arr) if rng.random() < 0.5 else arr, n=n, m=m)
    case = {"index": index, "what": "function+conditions", "n": n, "m": m, "array": arr}
    rep.case(case, cls=f"function|n={n}|m={m}")
    for mode, save, load in (("binary", f.save, PervaporationFunction.load), ("json", f.safe_save, PervaporationFunction.safe_load)):
        path = Path(tmp) / f"f_{index}_{mode}.pv"
        _audit["log"] = log = []
        try:
            save(path)
        finally:
            _audit["log"] = None
        rep.require("saving writes only where it was told to", all(str(e[1]).startswith(str(tmp)) for e in log) and len(log) >= 1, dict(case, mode=mode), {"events": log[:6]})
        g = load(path)
        ok = g.n == f.n and g.m == f.m and close(f.alpha, g.alpha) and len(g.a) == len(f.a) and len(g.b) == len(f.b) and \
            all(close(u, v) for u, v in zip(f.a, g.a)) and all(close(u, v) for u, v in zip(f.b, g.b))
        rep.require(f"function ({mode}): save -> load returns the same coefficients", ok, dict(case, mode=mode),
                    {"orig": [f.n, f.m, float(f.alpha), [float(v) for v in f.a], [float(v) for v in f.b]],
                     "loaded": [g.n, g.m, float(g.alpha), [float(v) for v in g.a], [float(v) for v in g.b]]})
        x, t = rng.uniform(0, 1), rng.uniform(280, 380)
        rep.require(f"function ({mode}): loaded function evaluates identically", close(float(f(x, t)), float(g(x, t))), dict(case, mode=mode))
        if index % 3 == 0:
            # the same file name used again for another function
            f2 = PervaporationFunction.from_array([arr[0] * 2.5] + [v + 0.5 for v in arr[1:]], n=n, m=m)
            (f2.save if mode == "binary" else f2.safe_save)(path)
            g2 = load(path)
            rep.require("a file name used again: loading returns what the file holds now", close(f2.alpha, g2.alpha) and all(close(u, v) for u, v in zip(f2.b, g2.b)),
                        dict(case, mode=mode, reuse="function path"), {"expected_alpha": float(f2.alpha), "loaded_alpha": float(g2.alpha)})
    # conditions
    basis = rng.choice(["weight", "molar"])
    mode = rng.choice(["V", "T", "P"])
    cond = Conditions(membrane_area=gen.loguniform(rng, 1e-9, 1e3), initial_feed_temperature=rng.uniform(273, 400),
                      initial_feed_amount=gen.loguniform(rng, 1e-9, 1e3), initial_feed_composition=Composition(p=rng.random(), type=basis),
                      permeate_temperature=rng.uniform(120, 270) if mode == "T" else None,
                      permeate_pressure=rng.uniform(0, 10) if mode == "P" else None,
                      temperature_program=TemperatureProgram([300.0, 1.0]) if rng.random() < 0.3 else None)
    path = Path(tmp) / f"cond_{index}.ic"
    cond.safe_save(path)
    c2 = Conditions.safe_load(path)
    ok = close(cond.membrane_area, c2.membrane_area) and close(cond.initial_feed_temperature, c2.initial_feed_temperature) and \
        close(cond.initial_feed_amount, c2.initial_feed_amount) and close(cond.initial_feed_composition.p, c2.initial_feed_composition.p, 1e-12) and \
        cond.initial_feed_composition.type == c2.initial_feed_composition.type and close(cond.permeate_temperature, c2.permeate_temperature) and \
        close(cond.permeate_pressure, c2.permeate_pressure)
    if index % 3 == 0:
        cond_b = Conditions(membrane_area=cond.membrane_area * 2, initial_feed_temperature=cond.initial_feed_temperature + 1.5, initial_feed_amount=cond.initial_feed_amount * 3,
                            initial_feed_composition=cond.initial_feed_composition, permeate_temperature=cond.permeate_temperature, permeate_pressure=cond.permeate_pressure)
        cond_b.safe_save(path)
        c3 = Conditions.safe_load(path)
        rep.require("a file name used again: loading returns what the file holds now", close(c3.membrane_area, cond_b.membrane_area) and close(c3.initial_feed_temperature, cond_b.initial_feed_temperature),
                    dict(case, reuse="conditions path"), {"expected_area": cond_b.membrane_area, "loaded_area": c3.membrane_area})
    rep.require("conditions (JSON): save -> load returns the same conditions", ok, dict(case, conditions=gen.describe_conditions(cond)),
                {"loaded": gen.describe_conditions(c2)})
    # ... and the loaded object BEHAVES like the original: the same process model from both (the programme is not stored)
    if ok and 0.02 < cond.initial_feed_composition.p < 0.98:
        from pyvaporation.mixtures import Mixtures
        from pyvaporation.pervaporation import Pervaporation

        mix = getattr(Mixtures, rng.choice(gen.BUILTIN_MIXTURES))
        pv = Pervaporation(gen.gen_membrane(rng, mix), mix)
        cond.temperature_program = None
        runs = []
        for c in (cond, c2):
            try:
                with guards.budget(proc.SOFT_BUDGET):
                    m = pv.ideal_non_isothermal_process(conditions=c, number_of_steps=2, delta_hours=1e-6)
                runs.append(proc.model_fingerprint(m))
            except guards.BudgetExceeded:
                runs.append("slow")
            except Exception as e:
                runs.append("raised " + type(e).__name__)
        if "slow" not in runs:
            same = runs[0] == runs[1]
            diff = None if same or isinstance(runs[0], str) or isinstance(runs[1], str) else proc.first_difference(runs[0], runs[1])
            rep.require("loaded conditions behave like the original ones (same process model, bitwise)", same, dict(case, conditions=gen.describe_conditions(cond), mixture=mix.name),
                        {"original": runs[0] if isinstance(runs[0], str) else "returned", "loaded": runs[1] if isinstance(runs[1], str) else "returned", "difference": diff})


# ------------------------------------------------------------------------------------------------ process models
class FrozenClock:
    def __init__(self):
        import datetime as _dt

        self.t = _dt.datetime(2024, 5, 17, 12, 0, 0)

    def now(self):
        return self.t


def compare_process(a, b, safe):
    n = len(a.time)

    def series(x):
        return list(x) if hasattr(x, "__len__") and not isinstance(x, str) else [x] * n

    if b.mixture is not a.mixture:
        return {"what": "mixture"}
    if str(b.membrane_name) != str(a.membrane_name):
        return {"what": "membrane name", "loaded": b.membrane_name}
    for key in ("time", "feed_mass", "feed_temperature", "feed_evaporation_heat", "permeate_condensation_heat", "permeate_temperature", "permeate_pressure"):
        u, v = series(getattr(a, key)), series(getattr(b, key))
        if len(u) != len(v):
            return {"what": key + " length", "orig": len(u), "loaded": len(v)}
        for i in range(n):
            if not close(u[i], v[i]):
                return {"what": key, "step": i, "orig": u[i], "loaded": repr(v[i])}
    if len(b.feed_compositions) != n or len(b.permeate_composition) != n or len(b.partial_fluxes) != n or len(b.permeances) != n:
        return {"what": "series lengths"}
    for i in range(n):
        if b.feed_compositions[i].type != "weight" or not close(a.feed_compositions[i].p, b.feed_compositions[i].p, 1e-12 + REL):
            return {"what": "feed composition", "step": i}
        if b.permeate_composition[i].type != "weight" or not close(a.permeate_composition[i].p, b.permeate_composition[i].p, 1e-12 + REL):
            return {"what": "permeate composition", "step": i, "orig": a.permeate_composition[i].p, "loaded": b.permeate_composition[i].p}
        for c in (0, 1):
            if not close(float(a.partial_fluxes[i][c]), float(b.partial_fluxes[i][c])):
                return {"what": "flux", "step": i, "component": c, "orig": float(a.partial_fluxes[i][c]), "loaded": float(b.partial_fluxes[i][c])}
            if a.permeances[i][c].units != b.permeances[i][c].units or not close(a.permeances[i][c].value, b.permeances[i][c].value):
                return {"what": "permeance", "step": i, "component": c, "orig": [a.permeances[i][c].value, a.permeances[i][c].units],
                        "loaded": [b.permeances[i][c].value, b.permeances[i][c].units]}
    fa, fb = a.permeance_fits, b.permeance_fits
    if fa is not None:
        if fb is None:
            return {"what": "fits missing"}
        for c in (0, 1):
            f, g = fa[c], fb[c]
            if not (g.n == f.n and g.m == f.m and close(f.alpha, g.alpha) and len(f.a) == len(g.a) and len(f.b) == len(g.b)
                    and all(close(u, v) for u, v in zip(f.a, g.a)) and all(close(u, v) for u, v in zip(f.b, g.b))):
                return {"what": "fitted function", "component": c}
    ca, cb = a.initial_conditions, b.initial_conditions
    if ca is not None:
        if cb is None:
            return {"what": "conditions missing"}
        if not (close(ca.membrane_area, cb.membrane_area) and close(ca.initial_feed_temperature, cb.initial_feed_temperature)
                and close(ca.initial_feed_amount, cb.initial_feed_amount) and close(ca.initial_feed_composition.p, cb.initial_feed_composition.p, 1e-12)
                and ca.initial_feed_composition.type == cb.initial_feed_composition.type
                and close(ca.permeate_temperature, cb.permeate_temperature) and close(ca.permeate_pressure, cb.permeate_pressure)):
            return {"what": "initial conditions"}
    return None


def process_case(rep, spec, index, tmp):
    import pyvaporation.process.process as pmod
    from pyvaporation.process import ProcessModel

    rng = gen.case_rng(PROP + "P", spec["seed"], spec["shard"], index)
    membrane_dir = Path(tmp) / f"membrane_{index}"
    membrane_dir.mkdir()
    n_saves = rng.randint(2, 6)
    frozen = rng.random() < 0.4
    case0 = {"index": index, "what": "process", "saves": n_saves, "frozen_clock": frozen}
    saved = []  # (dir, model, safe)
    orig_dt = pmod.datetime
    clock = FrozenClock()
    try:
        for s in range(n_saves):
            kinds = proc.KINDS[:2] if rng.random() < 0.7 else proc.KINDS[2:]
            # no numpy-integer scalars here: json cannot serialise them, so Conditions.safe_save of the pinned library raises
            # TypeError (loudly, nothing is written wrongly); they are outside the objects C17 quantifies over
            sc = proc.Scenario(rng, kinds=kinds, builtin_only=True, max_steps=8, nonideal_orders=0, narrow_ints=False)
            st, model = sc.run()
            safe = rng.random() < 0.5
            case = dict(case0, save_no=s, scenario=sc.describe(), is_safe=safe)
            rep.case(case, cls=f"process|{sc.kind}|{sc.mode}|safe={safe}")
            if st != "ok":
                rep.count("process_run_" + st)
                continue
            before = {p: tree_hash(p) for p in (membrane_dir / "results").glob("process_*")} if (membrane_dir / "results").exists() else {}
            if frozen:
                pmod.datetime = clock  # fault injection at the existing call: every save of this history gets the same directory name
            _audit["log"] = log = []
            try:
                model.save(membrane_path=membrane_dir, is_safe=safe)
                outcome = "saved"
            except FileExistsError:
                outcome = "collision"
            except Exception as e:
                outcome = "error:" + repr(e)
            finally:
                _audit["log"] = None
                pmod.datetime = orig_dt
            after_dirs = set((membrane_dir / "results").glob("process_*")) if (membrane_dir / "results").exists() else set()
            new_dirs = after_dirs - set(before)
            unchanged = all(tree_hash(p) == h for p, h in before.items())
            # audit events fire before the operation: an os.mkdir attempt ON an existing directory fails / is a no-op
            inside_old = [e for e in log if any(str(e[1]).startswith(str(p) + os.sep) or (str(e[1]) == str(p) and e[0] != "os.mkdir") for p in before)]
            rep.require("saving never alters a previously saved process directory", unchanged and not inside_old, case,
                        {"outcome": outcome, "events_inside_older_directories": inside_old[:6]})
            if outcome == "collision":
                rep.count("collisions_forced" if frozen else "collisions_natural")
                continue
            if outcome != "saved":
                rep.require("saving a process model succeeds or reports a name collision", False, case, {"outcome": outcome})
                continue
            if frozen and before:
                rep.count("collisions_forced")  # the name collided and the save went somewhere else: fine as long as nothing older changed
            if len(new_dirs) != 1:
                rep.count("save_without_exactly_one_new_directory")
                continue
            target = next(iter(new_dirs))
            loaded = ProcessModel.load(target, is_safe=safe)
            bad = compare_process(model, loaded, safe)
            rep.require("process model: save -> load returns the same model", bad is None, case, bad)
            saved.append((target, model, safe))
            if rng.random() < 0.35:
                # the user stores the copy just loaded once more under the same membrane - in the pinned library this save
                # FAILS (a loaded model carries scalar permeate conditions, TypeError) - and, next, a model without initial
                # conditions with is_safe=True.  Whatever the outcome: nothing saved earlier may change
                import copy

                attempts = [("re-save of a loaded model", lambda: loaded.save(membrane_path=membrane_dir, is_safe=safe))]
                bare = copy.copy(model)
                bare.initial_conditions = None
                attempts.append(("safe save without initial conditions", lambda: bare.save(membrane_path=membrane_dir, is_safe=True)))
                for what, attempt in attempts:
                    before2 = {p: tree_hash(p) for p in (membrane_dir / "results").glob("process_*")}
                    _audit["log"] = log2 = []
                    try:
                        attempt()
                        outcome2 = "saved"
                    except Exception as e:
                        outcome2 = type(e).__name__
                    finally:
                        _audit["log"] = None
                    rep.count(f"{what}: {outcome2}")
                    gone = [str(p) for p in before2 if not p.exists()]
                    unchanged2 = all(p.exists() and tree_hash(p) == h for p, h in before2.items())
                    inside2 = [e for e in log2 if any(str(e[1]).startswith(str(p) + os.sep) or (str(e[1]) == str(p) and e[0] != "os.mkdir") for p in before2)]
                    rep.require("a failing (or repeated) save never alters a previously saved process directory", unchanged2 and not inside2,
                                dict(case, attempt=what), {"outcome": outcome2, "directories_gone": gone[:4], "events_inside_older_directories": inside2[:6]})
    finally:
        pmod.datetime = orig_dt


def run_shard(spec, rep):
    sys.addaudithook(_hook)
    only = spec.get("only")
    plan = [(i, curve_case) for i in range(spec["n_curve"])]
    plan += [(100000 + i, func_case) for i in range(spec["n_func"])]
    plan += [(200000 + i, process_case) for i in range(spec["n_proc"])]
    for index, fn in plan:
        if only is not None and index != only:
            continue
        if rep.n_violations >= 20:
            break
        tmp = tempfile.mkdtemp(prefix="pvmon_c17_")
        try:
            fn(rep, spec, index, tmp)
        except Exception as e:
            rep.harness_error(f"C17 case {index}: {e!r}", e)
        finally:
            shutil.rmtree(tmp, ignore_errors=True)


def finalize(agg, tier):
    out = []
    need = ["curve: save -> load returns the same curve", "function (binary): save -> load returns the same coefficients",
            "function (json): save -> load returns the same coefficients", "conditions (JSON): save -> load returns the same conditions",
            "process model: save -> load returns the same model", "saving never alters a previously saved process directory"]
    for o in need:
        if agg["oracles"].get(o, {}).get("checked", 0) < 20:
            out.append(f"oracle '{o}' evaluated fewer than 20 times")
    if agg["counters"].get("collisions_forced", 0) < 5:
        out.append("fewer than 5 forced directory-name collisions")
    return out


LEVEL_TEXT = (
    "Exploration: hundreds of objects from all generators are saved and re-loaded through the real methods in temporary "
    "directories and compared field by field at 1e-9 relative (mixture identity, mass-fraction compositions, units, "
    "permeate condition, lengths, None/NaN); an audit hook (sys.addaudithook) records every write-open / mkdir / remove / "
    "rename a save performs and requires that none of them touches a previously saved process directory, content hashes of "
    "every pre-existing process directory are compared before and after each of 2-6 consecutive saves, and a frozen clock "
    "(fault injection at the existing datetime call) forces directory-name collisions, under which the older directory must "
    "stay untouched (the library raises FileExistsError); a third of the histories also contains saves that fail in the pinned library "
    "(re-save of a loaded model, safe save without initial conditions), after which the older directories must be unchanged as well."
)
LEVEL_NOTE = "Trusted: sys.addaudithook sees pandas / joblib / json writes (verified); only built-in mixtures can be stored by name."
TECHNIQUE = "runtime monitoring: round-trip oracle + audit-hook write-set confinement + before/after directory hashes under injected name collisions"
