"""C18 - reported process states are physically admissible, otherwise the call raises."""
import math

from .. import gen, proc

PROP = "C18"
LEVEL = "exploration"
RULE = (
    "case = one call of one of the 4 real process models with a COARSE discretisation: the step length is chosen so that "
    "the first step removes 10 %..1000 % of the feed (all mixtures, both activity models, all permeate modes incl. "
    "permeate temperatures down to 120 K, self-cooling with the resulting temperature drops of tens to thousands of K, "
    "programmes that cross 0 K), plus a share of admissible fine discretisations as control. A raised exception is always "
    "acceptable; a returned model must be admissible at every reported step. non-trivial = coarse case; distinct = "
    "distinct inputs"
)
ASSUMPTIONS = ["admissible = feed mass and temperature positive and finite, feed/permeate mass fractions in [0,1], fluxes and heats finite (as the statement lists)"]
SHARD_TIMEOUT = {"quick": 1500, "thorough": 14000}

ANCHORS = [('pervaporation/pervaporation.py', 'Feed mass %s kg is not positive', 'feed-exhaustion guard raising'), ('pervaporation/pervaporation.py', 'Feed temperature %s K is not a positive finite number', 'temperature guard raising')]


def shards(tier, seed):
    ni, nn = {"quick": (110, 40), "thorough": (6000, 2000)}[tier]
    return [{"n_ideal": ni, "n_nonideal": nn} for _ in range(16)]


def run_shard(spec, rep):
    from pyvaporation.conditions import TemperatureProgram
    from .c01 import cases

    only = spec.get("only")
    for index, kinds in cases(spec):
        if only is not None and index != only:
            continue
        if rep.n_violations >= 20:
            break
        rng = gen.case_rng(PROP, spec["seed"], spec["shard"], index)
        coarse = rng.random() < 0.85
        sc = proc.Scenario(rng, kinds=kinds, coarse=coarse, max_steps=12, nonideal_orders=0,  # fits are not the subject here
                           modes=["V", "T", "T", "Tnear", "P", "Psmall", "P0"])
        if coarse and not sc.isothermal and rng.random() < 0.3:
            # a programme that crosses 0 K within the run
            total = sc.dt * sc.n
            sc.program = TemperatureProgram(coefficients=[sc.t0, -sc.t0 * rng.uniform(0.6, 4.0) / total], type="polynomial")
            sc.conditions.temperature_program = sc.program
        srng = gen.case_rng(PROP + ":scale", spec["seed"], spec["shard"], index)
        if srng.random() < 0.3 and sc.narrow is None and isinstance(sc.m0, float) and isinstance(sc.area, float):
            # the same request at another scale (round 9): a microgram..gram laboratory charge or a tonne-scale batch on a
            # membrane scaled with it - step length and first-step fraction are unchanged, only the absolute amounts move
            # (an absolute tolerance in kg hidden in a guard is invisible at the usual 0.01..1000 kg)
            s = gen.loguniform(srng, 1e-12, 1e-3) if srng.random() < 0.8 else gen.loguniform(srng, 1e3, 1e6)
            sc.m0, sc.area = type(sc.m0)(float(sc.m0) * s), type(sc.area)(float(sc.area) * s)
            sc.conditions.initial_feed_amount, sc.conditions.membrane_area = sc.m0, sc.area
            rep.count("rescaled_charge:" + ("micro" if s < 1 else "tonne"))
        if sc.ideal and rng.random() < 0.05:
            # a barrier membrane: stated permeance exactly 0 for both components (fluxes exactly zero in vacuum mode)
            from pyvaporation.permeance import Permeance

            for e in sc.membrane.ideal_experiments.experiments:
                e.permeance = Permeance(value=0.0, units=e.permeance.units)
                e.activation_energy = 1000.0
        case = dict(sc.describe(), index=index)
        status, model = sc.run()
        hostile = coarse and sc.f0 * sc.n >= 1.0
        rep.case(case, nontrivial=coarse, cls=("coarse|" if coarse else "fine|") + sc.cls())
        rep.count(("coarse_" if coarse else "fine_") + status)
        if hostile:
            rep.count("exhausting_requests(first step fraction x steps >= 1)")
            rep.count("exhausting_" + status)
        if status == "raised":
            rep.count("raised_" + type(model).__name__)
            rep.require("a raised exception or an admissible model", True, case)
            continue
        if status == "slow":
            continue
        try:
            ok = proc.admissible(rep, case, model)
            if ok and hostile:
                rep.count("exhausting_returned_admissible")
        except Exception as e:
            rep.harness_error(f"C18 judge {e!r}", e)


def finalize(agg, tier):
    out = []
    c = agg["counters"]
    if c.get("exhausting_requests(first step fraction x steps >= 1)", 0) < 50:
        out.append("fewer than 50 requests that exhaust the feed")
    if c.get("coarse_raised", 0) < 20:
        out.append("fewer than 20 coarse runs raised: the guard was not reached")
    if c.get("coarse_ok", 0) + c.get("fine_ok", 0) < 50:
        out.append("fewer than 50 runs returned: 'raises for every input' would pass unnoticed")
    return out


LEVEL_TEXT = (
    "Exploration: thousands of real process-model calls with coarse steps (one step removes 10 %..1000 % of the feed, "
    "self-cooling by up to thousands of K, programmes crossing 0 K, permeate temperatures down to 120 K) with a "
    "post-condition on every returned model: every reported state must be admissible; raising is always accepted. The "
    "evidence counts how many requests exhausted the feed and how they ended, and fine-step control runs must return."
)
LEVEL_NOTE = "Only the sampled coarse discretisations are covered; the reference for 'would leave the region' is the reported trajectory itself."
TECHNIQUE = "runtime monitoring: admissibility post-condition on every returned ProcessModel under a hostile coarse-step workload"
