"""C10 - the flux calculation always terminates (restated as bounded progress, B = 250000 evaluations)."""
from .. import gen, guards

PROP = "C10"
LEVEL = "exploration"
B = guards.HARD_EVALS
RULE = (
    "case = one call of the real calculate_partial_fluxes (C02's domain, 60 % of the cases with the permeate "
    "temperature within |N(0, 8 K)| of the feed temperature where the fixed-point map cycles, about 1.5 % at the permeate pressure where the pressure-mode map has a neutral 2-cycle, both activity models, "
    "precision 1e-8..1e-3), the recorded D4 witness, plus ideal and non-ideal process / curve models started in that region. Two "
    f"independent online budgets watch every call: <= {B} driving-force evaluations (counter on the real helper) and "
    f"<= {B * guards.LINES_PER_EVAL} line events (sys.monitoring LINE on every code object of pyvaporation/pervaporation, so an inlined or "
    "moved loop is still bounded). non-trivial = the iteration ran (a permeate condition was present); distinct = "
    "distinct input tuples"
)
ASSUMPTIONS = [
    f"'never iterates forever' is decided as bounded progress: at most {B} driving-force evaluations per flux calculation (the repaired loop stops at 100000; slowest converging case seen ~14000)",
    "a wall-clock watchdog per shard backs the budgets up; its firing is inconclusive, not a violation",
]
SHARD_TIMEOUT = {"quick": 1500, "thorough": 14000}
WITNESS = dict(t=305.8254951714443, w=0.2527696099032084, p=(2.0210374219957683e-4, 2.4706515465167615e-3),
               precision=1.1677258281484896e-8, tp=297.2506914878252)

ANCHORS = [('pervaporation/pervaporation.py', 'if iterations > 100000', 'iteration bound of the fixed-point loop')]


def shards(tier, seed):
    n = {"quick": 800, "thorough": 19000}[tier]
    return [{"n": n, "models": 24 if tier == "quick" else 300} for _ in range(16)]


def run_shard(spec, rep):
    from pyvaporation.conditions import Conditions
    from pyvaporation.membrane import Membrane
    from pyvaporation.mixtures import Composition, Mixtures
    from pyvaporation.permeance import Permeance
    from pyvaporation.pervaporation import Pervaporation

    only = spec.get("only")
    # the recorded witness of the pinned defect (regression seed), in every shard 0
    if spec["shard"] == 0 and only in (None, -1):
        pv = Pervaporation(Membrane("M"), Mixtures.H2O_EtOH)
        case = {"index": -1, "witness": "D4", **{k: (list(v) if isinstance(v, tuple) else v) for k, v in WITNESS.items()}}
        rep.case(case, cls="witness")
        _guarded(rep, case, "flux", lambda: pv.calculate_partial_fluxes(
            feed_temperature=WITNESS["t"], composition=Composition(WITNESS["w"], "weight"), precision=WITNESS["precision"],
            permeate_temperature=WITNESS["tp"], first_component_permeance=Permeance(WITNESS["p"][0]),
            second_component_permeance=Permeance(WITNESS["p"][1])))
    capped = []
    for index in range(spec["n"]):
        if only is not None and index != only:
            continue
        if rep.n_violations >= 3:
            break  # a broken tree: a few witnesses are enough, every further one costs the full budget
        rng = gen.case_rng(PROP, spec["seed"], spec["shard"], index)
        near = rng.random() < 0.6
        fc = gen.FluxCase(rng, modes=["Tnear"] if near else ["T", "P", "Psmall", "Tnear", "V"] * 5 + ["Pneutral"])
        if near and index % 25 == 0:
            # critical slowing down: just below the permeate temperature at which this state's map stops contracting the
            # iteration still converges, but arbitrarily slowly - a bound must hold there as well
            from . import c02

            try:
                tflip = c02.flip_temperature(fc, rng)
            except Exception:
                tflip = None
            if tflip is not None:
                fc.tp, fc.pp, fc.mode = tflip, None, "Tflip"
                fc.precision = rng.choice([fc.precision, 5e-5, 1e-6])
                rep.count("critical_slowing_cases")
        if index % 400 == 7:
            # a requested precision at or below the resolution of a double: the change of the iterate cannot get below it, the
            # bound on the evaluations has to end the call
            fc.precision = rng.choice([1e-15, 1.1e-16, 1e-16, 1e-17, 1e-300, 0.0])
            rep.count("sub_resolution_precision_cases")
        case = dict(fc.describe(), index=index)
        rep.case(case, nontrivial=fc.mode != "V", cls=f"{fc.model}-{fc.mode}")
        _guarded(rep, case, "flux", lambda: fc.pv.calculate_partial_fluxes(**fc.kwargs()))
        if fc.from_membrane and guards.S.last_evals >= 100000 and len(capped) < 2 and fc.precision > 1e-12:
            capped.append(fc)  # a state at which the flux calculation ran into the library's bound: the models are started there below
        if index % 16 == 0:
            # the public helpers built on one flux calculation; they are entitled to exactly one
            if rep.n_violations >= 3:
                break
            hp = rng.choice([None, fc.precision])
            if rng.random() < 0.5:
                fn = (lambda: fc.pv.calculate_permeate_composition(fc.t_feed, fc.comp, permeate_temperature=fc.tp, permeate_pressure=fc.pp, calculation_type=fc.model)) if hp is None else \
                     (lambda: fc.pv.calculate_permeate_composition(fc.t_feed, fc.comp, hp, fc.tp, fc.pp, fc.model))
                what = "permeate_composition_helper"
            else:
                fn = (lambda: fc.pv.calculate_separation_factor(fc.t_feed, fc.comp, fc.tp, fc.pp, calculation_type=fc.model)) if hp is None else \
                     (lambda: fc.pv.calculate_separation_factor(fc.t_feed, fc.comp, fc.tp, fc.pp, hp, fc.model))
                what = "separation_factor_helper"
            with guards.call_budget(2):
                _guarded(rep, dict(case, helper=what, helper_precision=hp), what, fn)
    # process and curve models started in the cycling region
    for index in range(spec["models"]):
        idx = 100000 + index
        if only is not None and idx != only:
            continue
        if rep.n_violations >= 3:
            break
        rng = gen.case_rng(PROP, spec["seed"], spec["shard"], idx)
        fc = gen.FluxCase(rng, modes=["Tnear"], p_membrane=1.0)
        kind = rng.choice(["ideal_isothermal_process", "ideal_non_isothermal_process", "ideal_diffusion_curve",
                           "non_ideal_isothermal_process", "non_ideal_non_isothermal_process", "non_ideal_diffusion_curve"])
        case = dict(fc.describe(), index=idx, kind=kind)
        rep.case(case, cls="model-" + kind)
        if kind.startswith("non_ideal"):
            cs, _ = gen.gen_curve_set(rng, fc.mix, n_curves=rng.choice([1, 2]))
            o = dict(n_first=0, n_second=0, m_first=0, m_second=0)
            if kind == "non_ideal_diffusion_curve":
                fn = lambda: fc.pv.non_ideal_diffusion_curve(diffusion_curve_set=cs, feed_temperature=fc.t_feed, initial_feed_composition=fc.comp, delta_composition=0.005,
                                                             number_of_steps=4, permeate_temperature=fc.tp, precision=fc.precision, calculation_type=fc.model, **o)
            else:
                cond = Conditions(membrane_area=1.0, initial_feed_temperature=fc.t_feed, initial_feed_amount=100.0,
                                  initial_feed_composition=fc.comp, permeate_temperature=fc.tp)
                fn = lambda: getattr(fc.pv, kind)(conditions=cond, diffusion_curve_set=cs, number_of_steps=5, delta_hours=0.05, precision=fc.precision, calculation_type=fc.model, **o)
        elif kind == "ideal_diffusion_curve":
            comps = [gen.gen_composition(rng, fc.mix) for _ in range(4)]
            fn = lambda: fc.pv.ideal_diffusion_curve(fc.t_feed, comps, permeate_temperature=fc.tp, precision=fc.precision, calculation_type=fc.model)
        else:
            cond = Conditions(membrane_area=1.0, initial_feed_temperature=fc.t_feed, initial_feed_amount=100.0,
                              initial_feed_composition=fc.comp, permeate_temperature=fc.tp)
            fn = lambda: getattr(fc.pv, kind)(conditions=cond, number_of_steps=5, delta_hours=0.05, precision=fc.precision, calculation_type=fc.model)
        with guards.call_budget(12):  # at most 5 steps / 4 points, two flux calculations a step at the very most
            _guarded(rep, case, "model", fn)
    # every consumer of the flux calculation at states where it is KNOWN not to converge (found above in this very shard)
    for n_c, fc in enumerate(capped if only is None else []):
        if rep.n_violations >= 3:
            break
        cond = Conditions(membrane_area=1.0, initial_feed_temperature=fc.t_feed, initial_feed_amount=100.0, initial_feed_composition=fc.comp,
                          permeate_temperature=fc.tp, permeate_pressure=fc.pp)
        consumers = [
            ("ideal_diffusion_curve", lambda: fc.pv.ideal_diffusion_curve(fc.t_feed, [fc.comp], fc.tp, fc.pp, fc.precision, fc.model)),
            ("ideal_isothermal_process", lambda: fc.pv.ideal_isothermal_process(conditions=cond, number_of_steps=1, delta_hours=0.01, precision=fc.precision, calculation_type=fc.model)),
            ("ideal_non_isothermal_process", lambda: fc.pv.ideal_non_isothermal_process(conditions=cond, number_of_steps=1, delta_hours=0.01, precision=fc.precision, calculation_type=fc.model)),
            ("calculate_permeate_composition", lambda: fc.pv.calculate_permeate_composition(fc.t_feed, fc.comp, fc.precision, fc.tp, fc.pp, fc.model)),
        ]
        for kind, fn in consumers:
            case = dict(fc.describe(), index=f"capped-{n_c}", kind=kind)
            rep.case(case, cls="at-a-non-convergent-state-" + kind)
            with guards.call_budget(4):
                _guarded(rep, case, "consumer_at_non_convergent_state", fn)
    rep.count("non_convergent_states_handed_to_the_consumers", len(capped))
    for k, v in guards.eval_histogram().items():
        rep.count("evaluations_per_flux_calculation " + k, v)


def _guarded(rep, case, what, fn):
    before = guards.S.flux_calls
    try:
        fn()
        rep.count(what + "_returned")
        ok = True
    except guards.BudgetExceeded as e:
        ok = False
        rep.require("returns or raises within the evaluation / line budget", False, case,
                    {"budget": e.kind, "count": e.count, "limit": e.limit})
    except Exception as e:
        ok = True
        rep.count(what + "_raised_" + type(e).__name__)
    if ok:
        rep.require("returns or raises within the evaluation / line budget", True, case)
    rep.note_max("evaluations_in_one_flux_calculation", guards.S.max_evals)
    if guards.S.flux_calls == before and what == "flux":
        rep.count("flux_calculation_not_observed")


def finalize(agg, tier):
    out = []
    c = agg["counters"]
    if c.get("flux_calculation_not_observed", 0) > 0.5 * agg["cases"]:
        out.append("the budget wrapper did not observe the flux calculations")
    if c.get("budget:driving_force_evaluations", 0) < 10000:
        out.append("fewer than 10000 driving-force evaluations observed: the counter is not attached to the real helper")
    slow = sum(v for k, v in c.items() if k.startswith("evaluations_per_flux_calculation <2^") and int(k.split("^")[1]) >= 12)
    if slow < 5:
        out.append(f"only {slow} flux calculations needed >= 2048 evaluations: the cycling region was not reached")
    return out


LEVEL_TEXT = (
    "Exploration of the bounded-progress restatement: every flux calculation of the run (tens of thousands, most of them "
    "in the near-equilibrium region where the permeate-composition map has attracting 2-cycles, plus process and curve "
    "models started there and the recorded witness of the pinned defect) is executed under two independent online budgets; "
    "a call that neither returns nor raises within 250000 driving-force evaluations is a violation with its input as "
    "witness. The evidence carries the histogram of evaluations per call, so that it is visible that non-convergent "
    "inputs were actually met (they end with the library's own ValueError at 100000 iterations). The permeate-composition "
    "and separation-factor helpers and the models additionally run under a per-public-call budget (2 resp. 12 flux calculations); for a "
    "share of the near-equilibrium states the permeate temperature at which the map stops contracting is located by bisection and the "
    "library is run 0..1e-2 K below it (critical slowing down)."
)
LEVEL_NOTE = "Unbounded termination cannot be decided by a finite run; the bound B and the sampled domain are the claim. Trusted: sys.monitoring LINE events and the wrapper on the real helper."
TECHNIQUE = "runtime monitoring: online evaluation and line budgets (wrapper + sys.monitoring) over a workload aimed at the cycling region"
