"""C07 - results do not depend on mole- vs mass-fraction input basis."""
import math

from .. import gen, guards, proc
from . import c02

PROP = "C07"
LEVEL = "exploration"
RULE = (
    "case = a call of the real code with a mass-fraction composition and the same call with the equivalent mole fraction "
    "(converted by the harness): (S) flux solver, permeate-composition and separation-factor helpers, a 3-point ideal "
    "curve with all its metrics; (N) non-ideal diffusion curve with the initial composition in either basis on a fixed "
    "synthetic curve set; (P) the 4 process models with the initial feed in either basis; (M) measurement extraction from a "
    "curve set given with mass- or mole-fraction abscissae. All mixtures (molar-mass ratios up to 13), both activity "
    "models, all permeate modes, compositions 0.02..0.98. non-trivial = both runs returned and M1 != M2; distinct = "
    "distinct inputs"
)
ASSUMPTIONS = [
    "the harness conversion is accurate to a few ulp; outputs may differ by that input perturbation times the measured sensitivity, plus 4 x precision x sensitivity in iterated permeate modes (precision 1e-10..1e-8)",
    "solver-level twins are judged only where the activity model is numerically meaningful (gamma within 1e-8..1e8, flux <= P x p_feed; see C06)",
    "fitted coefficients are compared only through the measurement points, as the property prescribes; process/curve twins therefore use identical curve sets",
]
EPS = 2.0**-52
SHARD_TIMEOUT = {"quick": 1500, "thorough": 14000}


def shards(tier, seed):
    ns, nn, ni, nni, nm = {"quick": (250, 6, 40, 8, 30), "thorough": (12000, 150, 2000, 200, 1500)}[tier]
    return [{"n_solver": ns, "n_curve": nn, "n_ideal": ni, "n_nonideal": nni, "n_meas": nm} for _ in range(16)]


def rel_close(u, v, rel, scale=None):
    s = max(abs(u), abs(v)) if scale is None else scale
    return abs(u - v) <= rel * s


def _guard(fn):
    try:
        with guards.budget(proc.SOFT_BUDGET):
            return "ok", fn()
    except guards.BudgetExceeded:
        return "slow", None
    except Exception as e:
        return "raised", e


# -------------------------------------------------------------------------------------------------- solver
def solver_case(rep, spec, index):
    from pyvaporation.mixtures import Composition

    rng = gen.case_rng(PROP + "S", spec["seed"], spec["shard"], index)
    fc = gen.FluxCase(rng, p_membrane=0.3, modes=["V", "T", "T", "Tnear", "P", "Psmall", "P0"], edge=0.02)
    fc.comp = gen.to_weight_exact(fc.comp, fc.mix)
    if rng.random() < 0.06:
        # a nearly pure feed: 0.1 .. 100 ppm of one component (traces of solvent in water, the last stage of a dehydration)
        trace = 10 ** (-rng.uniform(4, 7))
        fc.comp = Composition(p=trace if rng.random() < 0.5 else 1 - trace, type="weight")
        try:
            fc.tp, fc.pp = gen.gen_permeate(rng, fc.mode if fc.mode != "Pneutral" else "P", fc.mix, fc.t_feed, fc.comp, fc.model)
        except Exception:
            fc.mode, fc.tp, fc.pp = "V", None, None
    fc.precision = gen.loguniform(rng, 1e-10, 1e-8)
    xm = gen.to_molar_exact(fc.comp, fc.mix)
    extra = [gen.gen_composition(rng, fc.mix, basis="weight", edge=0.02) for _ in range(2)]
    comps_w = [fc.comp] + extra
    comps_m = [gen.to_molar_exact(c, fc.mix) for c in comps_w]
    if rng.random() < 0.3:
        # the same NUMBER under both labels in one list (30 wt% next to 30 mol%); the twin list holds the same two physical
        # points, each in the other basis
        q = rng.uniform(0.05, 0.95)
        wq, mq = Composition(p=q, type="weight"), Composition(p=q, type="molar")
        comps_w += [wq, mq]
        comps_m += [gen.to_molar_exact(wq, fc.mix), gen.to_weight_exact(mq, fc.mix)]
    case = dict(fc.describe(), index=index, level="solver", x_molar=xm.p)
    pv = fc.pv
    as_tuple = index % 5 == 0  # the list of compositions handed over as a tuple

    def run(c, cs):
        kw = dict(fc.kwargs(), composition=c)
        j = pv.calculate_partial_fluxes(**kw)
        y = pv.calculate_permeate_composition(fc.t_feed, c, fc.precision, fc.tp, fc.pp, fc.model)
        sf = pv.calculate_separation_factor(fc.t_feed, c, fc.tp, fc.pp, fc.precision, fc.model)
        curve = pv.ideal_diffusion_curve(fc.t_feed, tuple(cs) if as_tuple else cs, fc.tp, fc.pp, fc.precision, fc.model)
        return {"j": (float(j[0]), float(j[1])), "y": y.p, "sf": float(sf), "curve": curve}

    sa, a = _guard(lambda: run(fc.comp, comps_w))
    sb, b = _guard(lambda: run(xm, comps_m))
    m1, m2 = fc.mix.first_component.molecular_weight, fc.mix.second_component.molecular_weight
    rep.case(case, nontrivial=(sa == "ok" and sb == "ok" and m1 != m2), cls=f"solver|{fc.model}|{fc.mode}")
    if sa != "ok" or sb != "ok":
        if {sa, sb} == {"ok", "raised"}:
            rep.require("both bases have the same outcome", False, case, {"mass": sa, "molar": sb, "error": repr(a if sa == "raised" else b)})
        else:
            rep.count(f"solver_{sa}_{sb}")
        return
    from .c06 import physically_bounded, sane_gamma

    sane = sane_gamma(fc.mix, fc.model, fc.t_feed, fc.comp) and physically_bounded(fc, a["j"])
    if sane and fc.tp is not None and 0 <= a["y"] <= 1:
        sane = sane_gamma(fc.mix, fc.model, fc.tp, Composition(p=a["y"], type="weight"))
    if not sane:
        rep.count("solver_numerical_breakdown_skipped")  # see C06: gamma outside 1e-8..1e8 (shipped UNIQUAC sets outside their range)
        return
    # the public driving-force routine called directly at a given permeate composition, feed in either basis (no iteration involved)
    w = fc.comp.p
    cond = 1 + 1 / min(w, 1 - w) + 1 / min(xm.p, 1 - xm.p)
    yq = Composition(p=rng.uniform(0.02, 0.98), type="weight")
    sda, da = _guard(lambda: pv.get_partial_fluxes_from_permeate_composition(fc.p1, fc.p2, yq, fc.comp, fc.t_feed, fc.tp, fc.pp, fc.model))
    sdb, db = _guard(lambda: pv.get_partial_fluxes_from_permeate_composition(fc.p1, fc.p2, yq, xm, fc.t_feed, fc.tp, fc.pp, fc.model))
    if sda == "ok" and sdb == "ok" and not all(math.isfinite(float(v)) for v in list(da) + list(db)):
        rep.count("direct_call_nonfinite_fluxes_not_judged")  # overflow of the activity model at the permeate temperature (see C02)
    elif sda == "ok" and sdb == "ok":
        try:
            _, pf, perm = c02.ref_fluxes(fc, yq.p, fc.p1.value, fc.p2.value)
            for i in (0, 1):
                scale = (fc.p1.value, fc.p2.value)[i] * max(abs(float(pf[i])), abs(float(perm[i])))
                rep.check("driving-force routine called directly: same fluxes from mass- and mole-fraction feed", abs(float(da[i]) - float(db[i])), 1e-11 * cond * scale, dict(case, y_given=yq.p),
                          {"mass": [float(da[0]), float(da[1])], "molar": [float(db[0]), float(db[1])]})
        except Exception:
            rep.count("direct_call_reference_failed")
    else:
        rep.require("driving-force routine called directly: both bases have the same outcome", sda == sdb, dict(case, y_given=yq.p), {"mass": sda, "molar": sdb})
    if fc.mode not in ("V", "P0") and 0 <= a["y"] <= 1 and not (c02.lipschitz(fc, a["y"], fc.p1.value, fc.p2.value, fc.precision) < 0.9):
        rep.count("solver_non_contractive_map_skipped")
        return
    # sensitivity of the fluxes to the permeate composition (iteration may stop one step apart)
    j = a["j"]
    y = j[0] / (j[0] + j[1])
    sens = [0.0, 0.0]
    if fc.mode not in ("V", "P0"):
        h = 1e-6
        try:
            p1, p2 = (fc.p1.value, fc.p2.value)
            u, _, _ = c02.ref_fluxes(fc, min(1.0, y + h), p1, p2)
            v, _, _ = c02.ref_fluxes(fc, max(0.0, y - h), p1, p2)
            sens = [abs(float(u[i]) - float(v[i])) / (2 * h) for i in (0, 1)]
        except Exception:
            sens = [abs(j[0]) + abs(j[1])] * 2
    w = fc.comp.p
    cond = 1 + 1 / min(w, 1 - w) + 1 / min(xm.p, 1 - xm.p)
    ok = True
    for i in (0, 1):
        tol = 1e-11 * cond * abs(j[i]) + 4 * fc.precision * sens[i]
        ok &= rep.check("flux solver: same fluxes from mass- and mole-fraction feed", abs(a["j"][i] - b["j"][i]), tol, case, {"mass": a["j"], "molar": b["j"]})
    ytol = 1e-11 * cond + 4 * fc.precision
    rep.check("permeate-composition helper: same result in both bases", abs(a["y"] - b["y"]), ytol, case, {"mass": a["y"], "molar": b["y"]})
    yy = min(max(a["y"], 1e-300), 1 - 1e-16)
    stol = (1e-10 * cond + 8 * fc.precision) * (1 + 1 / min(yy, 1 - yy)) * abs(a["sf"])
    if math.isfinite(a["sf"]) and math.isfinite(b["sf"]):
        rep.check("separation-factor helper: same result in both bases", abs(a["sf"] - b["sf"]), stol, case, {"mass": a["sf"], "molar": b["sf"]})
    ca, cb = a["curve"], b["curve"]
    try:
        ma = (ca.get_separation_factor, ca.get_psi, ca.get_selectivity)
        mb = (cb.get_separation_factor, cb.get_psi, cb.get_selectivity)
    except ZeroDivisionError:
        rep.count("curve_metric_undefined")
        return
    for k in range(len(comps_w)):
        ja, jb = ca.partial_fluxes[k], cb.partial_fluxes[k]
        wk = comps_w[k].p
        condk = 1 + 1 / min(wk, 1 - wk) + 1 / min(comps_m[k].p, 1 - comps_m[k].p)
        js = max(abs(float(ja[0])), abs(float(ja[1])))
        loose = 1e-10 * condk + 16 * fc.precision * (1 + max(sens) / max(js, 1e-300))
        yk = float(ja[0]) / (float(ja[0]) + float(ja[1]))
        ycond = 1 + (1 / min(yk, 1 - yk) if 0 < yk < 1 else 1e16)
        c = dict(case, point=k)
        rep.require("ideal curve: same fluxes in both bases", all(rel_close(float(ja[i]), float(jb[i]), loose, js) for i in (0, 1)), c,
                    {"mass": [float(ja[0]), float(ja[1])], "molar": [float(jb[0]), float(jb[1])]})
        pa, pb = ca.permeances[k], cb.permeances[k]
        rep.require("ideal curve: same permeances in both bases", all(rel_close(pa[i].value, pb[i].value, loose * ycond) for i in (0, 1) if float(ja[i]) > 0), c,
                    {"mass": [pa[0].value, pa[1].value], "molar": [pb[0].value, pb[1].value]})
        if all(math.isfinite(float(m[k])) for m in ma + mb):
            rep.require("ideal curve: same separation factor in both bases", rel_close(float(ma[0][k]), float(mb[0][k]), loose * ycond), c,
                        {"mass": float(ma[0][k]), "molar": float(mb[0][k])})
            rep.require("ideal curve: same PSI in both bases", rel_close(float(ma[1][k]), float(mb[1][k]), loose * ycond, abs(float(ma[1][k])) + js), c,
                        {"mass": float(ma[1][k]), "molar": float(mb[1][k])})
            if float(ja[0]) > 0 and float(ja[1]) > 0:
                rep.require("ideal curve: same selectivity in both bases", rel_close(float(ma[2][k]), float(mb[2][k]), loose * ycond), c,
                            {"mass": float(ma[2][k]), "molar": float(mb[2][k])})


# -------------------------------------------------------------------------------------------------- measurement extraction
def molar_twin_set(cs, mix, mixed=False):
    """the same curves with mole-fraction abscissae; mixed=True: the first point of every curve stays a mass fraction
    (the basis is a per-point attribute, the csv format stores it per row)"""
    from pyvaporation.diffusion_curve import DiffusionCurve, DiffusionCurveSet

    curves = []
    for c in cs.diffusion_curves:
        curves.append(DiffusionCurve(mixture=mix, membrane_name=c.membrane_name, feed_temperature=c.feed_temperature,
                                     feed_compositions=[x if (mixed and i == 0) else gen.to_molar_exact(x, mix) for i, x in enumerate(c.feed_compositions)],
                                     permeances=[(p[0], p[1]) for p in c.permeances], comments=c.comments))
    return DiffusionCurveSet(name=cs.name, diffusion_curves=curves)


def measurement_case(rep, spec, index):
    from pyvaporation.optimizer import Measurements

    rng = gen.case_rng(PROP + "M", spec["seed"], spec["shard"], index)
    mix, mdesc = gen.gen_mixture(rng)
    cs, desc = gen.gen_curve_set(rng, mix, basis="weight", units=rng.choice(gen.UNITS))
    mixed = rng.random() < 0.4
    tw = molar_twin_set(cs, mix, mixed=mixed)
    case = {"index": index, "level": "measurements", "mixture": mdesc, "curve_set": desc, "twin": "first point mass fraction, others mole fractions" if mixed else "all mole fractions"}
    m1, m2 = mix.first_component.molecular_weight, mix.second_component.molecular_weight
    rep.case(case, nontrivial=m1 != m2, cls="measurements")
    cond = max(1.0, m1 / m2, m2 / m1)
    if rng.random() < 0.5:
        # history: both sets are first USED by a non-ideal model (cheapest fit orders), then the measurements are extracted
        from pyvaporation.conditions import Conditions
        from pyvaporation.pervaporation import Pervaporation

        mem = gen.gen_membrane(rng, mix)
        cnd = Conditions(membrane_area=1.0, initial_feed_temperature=330.0, initial_feed_amount=10.0,
                         initial_feed_composition=gen.gen_composition(rng, mix, edge=0.1))
        kind = rng.choice(["non_ideal_isothermal_process", "non_ideal_non_isothermal_process", "non_ideal_diffusion_curve"])
        for the_set in (cs, tw):
            try:
                with guards.budget(proc.SOFT_BUDGET):
                    if kind == "non_ideal_diffusion_curve":
                        Pervaporation(mem, mix).non_ideal_diffusion_curve(diffusion_curve_set=the_set, feed_temperature=330.0, initial_feed_composition=cnd.initial_feed_composition,
                                                                        delta_composition=0.01, number_of_steps=1, n_first=0, n_second=0, m_first=0, m_second=0)
                    else:
                        getattr(Pervaporation(mem, mix), kind)(conditions=cnd, diffusion_curve_set=the_set, number_of_steps=1, delta_hours=1e-6,
                                                                n_first=0, n_second=0, m_first=0, m_second=0)
            except (Exception, guards.BudgetExceeded):
                pass
        rep.count("measurement_cases_after_model_use")
        case["used_by"] = kind
    for name in ("from_diffusion_curves_first", "from_diffusion_curves_second"):
        a = getattr(Measurements, name)(cs)
        b = getattr(Measurements, name)(tw)
        ok = len(a) == len(b)
        worst = None
        if ok:
            for u, v in zip(a.data, b.data):
                if not (abs(u.x - v.x) <= 16 * EPS * cond and u.t == v.t and rel_close(u.p, v.p, 64 * EPS * cond * (1 + 1 / min(u.x, 1 - u.x)))):
                    ok, worst = False, {"mass": [u.x, u.t, u.p], "molar": [v.x, v.t, v.p]}
                    break
        rep.require("measurement points extracted from a mass- and a mole-fraction curve set are the same", ok, dict(case, extractor=name), worst)
    for c, ct in zip(cs.diffusion_curves, tw.diffusion_curves):
        for name in ("from_diffusion_curve_first", "from_diffusion_curve_second"):
            a, b = getattr(Measurements, name)(c), getattr(Measurements, name)(ct)
            ok = len(a) == len(b) and all(abs(u.x - v.x) <= 16 * EPS * cond for u, v in zip(a.data, b.data))
            rep.require("single-curve measurement abscissae are mass fractions in both bases", ok, dict(case, extractor=name),
                        {"mass": [m.x for m in a.data][:3], "molar": [m.x for m in b.data][:3]})


# -------------------------------------------------------------------------------------------------- non-ideal curve
def curve_case(rep, spec, index):
    rng = gen.case_rng(PROP + "N", spec["seed"], spec["shard"], index)
    sc = proc.Scenario(rng, kinds=proc.KINDS[2:3], basis="weight", nonideal_orders=1)
    n = rng.randint(2, 6)
    w0 = rng.uniform(0.05, 0.5)
    from pyvaporation.mixtures import Composition

    cw = Composition(p=w0, type="weight")
    cm = gen.to_molar_exact(cw, sc.mix)
    delta = rng.uniform(0.01, 0.4 / n)
    sc.precision = gen.loguniform(rng, 1e-10, 1e-8)
    case = dict(sc.describe(), index=index, level="non-ideal curve", w0=w0, delta=delta, points=n)

    def run(c):
        return sc.pv.non_ideal_diffusion_curve(
            diffusion_curve_set=sc.curve_set, feed_temperature=sc.t0, initial_feed_composition=c, delta_composition=delta,
            number_of_steps=n, permeate_temperature=sc.tp, permeate_pressure=sc.pp, initial_permeances=sc.initial_permeances,
            precision=sc.precision, calculation_type=sc.model, include_zero=sc.include_zero, **sc.orders)

    sa, a = _guard(lambda: run(cw))
    sb, b = _guard(lambda: run(cm))
    m1, m2 = sc.mix.first_component.molecular_weight, sc.mix.second_component.molecular_weight
    rep.case(case, nontrivial=(sa == "ok" and sb == "ok" and m1 != m2), cls=f"nonideal-curve|{sc.model}|{sc.mode}")
    if sa != "ok" or sb != "ok":
        if {sa, sb} == {"ok", "raised"}:
            rep.require("both bases have the same outcome", False, case, {"mass": sa, "molar": sb, "error": repr(a if sa == "raised" else b)})
        return
    bad = None
    if len(a.feed_compositions) != len(b.feed_compositions):
        bad = {"what": "length"}
    else:
        for k in range(len(a.feed_compositions)):
            js = max(abs(float(a.partial_fluxes[k][0])), abs(float(a.partial_fluxes[k][1])))
            if abs(a.feed_compositions[k].p - b.feed_compositions[k].p) > 1e-12 or b.feed_compositions[k].type != "weight":
                bad = {"what": "compositions", "k": k, "mass": a.feed_compositions[k].p, "molar": b.feed_compositions[k].p}
            for i in (0, 1):
                if not rel_close(a.permeances[k][i].value, b.permeances[k][i].value, 1e-9):
                    bad = {"what": "permeances", "k": k, "mass": a.permeances[k][i].value, "molar": b.permeances[k][i].value}
                if not rel_close(float(a.partial_fluxes[k][i]), float(b.partial_fluxes[k][i]), 1e-6, js):
                    bad = {"what": "fluxes", "k": k, "mass": float(a.partial_fluxes[k][i]), "molar": float(b.partial_fluxes[k][i])}
            if bad:
                break
    rep.require("non-ideal curve: same result for the initial composition in either basis", bad is None, case, bad)


# -------------------------------------------------------------------------------------------------- processes
def process_case(rep, spec, index, kinds):
    from pyvaporation.conditions import Conditions

    rng = gen.case_rng(PROP + "P", spec["seed"], spec["shard"], index)
    sc = proc.Scenario(rng, kinds=kinds, basis="weight", max_steps=12, nonideal_orders=1)
    sc.precision = gen.loguniform(rng, 1e-10, 1e-8)
    c = sc.conditions
    xm = gen.to_molar_exact(sc.x0, sc.mix)
    cond_m = Conditions(membrane_area=c.membrane_area, initial_feed_temperature=c.initial_feed_temperature,
                        initial_feed_amount=c.initial_feed_amount, initial_feed_composition=xm,
                        permeate_temperature=c.permeate_temperature, permeate_pressure=c.permeate_pressure,
                        temperature_program=c.temperature_program)
    case = dict(sc.describe(), index=index, level="process", x_molar=xm.p)
    sa, a = sc.run()
    sb, b = sc.run(conditions=cond_m)
    m1, m2 = sc.mix.first_component.molecular_weight, sc.mix.second_component.molecular_weight
    rep.case(case, nontrivial=(sa == "ok" and sb == "ok" and m1 != m2), cls="process|" + sc.cls())
    if sa != "ok" or sb != "ok":
        if {sa, sb} == {"ok", "raised"}:
            returned = a if sa == "ok" else b
            if proc.exhaustion_step(returned, sc.area, sc.dt) is not None:
                rep.count("process_one_basis_raised_at_the_exhaustion_boundary_not_judged")  # see proc.exhaustion_step
            else:
                rep.require("both bases have the same outcome", False, case, {"mass": sa, "molar": sb, "error": repr(a if sa == "raised" else b)})
        else:
            rep.count(f"process_{sa}_{sb}")
        return
    rep.require("process reports feed compositions as mass fractions", all(x.type == "weight" for x in b.feed_compositions), case)
    if proc.runaway(a, sc.m0):
        rep.count("process_runaway_trajectory_skipped")
        return
    if proc.non_contractive(sc, a):
        rep.count("process_non_contractive_map_skipped")
        return
    bad = None
    n = len(a.time)
    if len(b.time) != n:
        bad = {"what": "length"}
    upto = proc.exhaustion_step(a, sc.area, sc.dt)
    if upto is not None:
        rep.count("process_judged_up_to_the_exhaustion_of_a_component")
        n = min(n, upto)
    n = min(n, 60)  # rounding-level drift between the twins is amplified from step to step (see C06): first 60 steps, growing tolerance
    for k in range(n if bad is None else 0):
        js = max(abs(float(a.partial_fluxes[k][0])), abs(float(a.partial_fluxes[k][1])))
        checks = [
            ("feed_mass", a.feed_mass[k], b.feed_mass[k], abs(a.feed_mass[0])),
            ("feed_temperature", a.feed_temperature[k], b.feed_temperature[k], None),
            ("feed composition", a.feed_compositions[k].p, b.feed_compositions[k].p, 1.0),
            ("permeate composition", a.permeate_composition[k].p, b.permeate_composition[k].p, 1.0),
            ("flux1", float(a.partial_fluxes[k][0]), float(b.partial_fluxes[k][0]), js),
            ("flux2", float(a.partial_fluxes[k][1]), float(b.partial_fluxes[k][1]), js),
            ("permeance1", a.permeances[k][0].value, b.permeances[k][0].value, None),
            ("permeance2", a.permeances[k][1].value, b.permeances[k][1].value, None),
            ("evaporation heat", a.feed_evaporation_heat[k], b.feed_evaporation_heat[k], None),
        ]
        for what, u, v, scale in checks:
            if not rel_close(u, v, 1e-6 * max(1.0, (k + 1) / 10), scale):
                bad = {"what": what, "step": k, "mass": float(u), "molar": float(v)}
                break
        if bad:
            break
    rep.require("process: same trajectory for the initial feed in either basis", bad is None, case, bad)


def run_shard(spec, rep):
    only = spec.get("only")
    plan = [(i, lambda r, s, i: solver_case(r, s, i)) for i in range(spec["n_solver"])]
    plan += [(100000 + i, lambda r, s, i: measurement_case(r, s, i)) for i in range(spec["n_meas"])]
    plan += [(200000 + i, lambda r, s, i: process_case(r, s, i, proc.KINDS[:2])) for i in range(spec["n_ideal"])]
    plan += [(300000 + i, lambda r, s, i: process_case(r, s, i, proc.KINDS[2:])) for i in range(spec["n_nonideal"])]
    plan += [(400000 + i, lambda r, s, i: curve_case(r, s, i)) for i in range(spec["n_curve"])]
    for index, fn in plan:
        if only is not None and index != only:
            continue
        if rep.n_violations >= 20:
            break
        try:
            fn(rep, spec, index)
        except Exception as e:
            rep.harness_error(f"C07 case {index}: {e!r}", e)


def finalize(agg, tier):
    out = []
    need = ["flux solver: same fluxes from mass- and mole-fraction feed", "separation-factor helper: same result in both bases",
            "ideal curve: same separation factor in both bases",
            "measurement points extracted from a mass- and a mole-fraction curve set are the same",
            "non-ideal curve: same result for the initial composition in either basis",
            "process: same trajectory for the initial feed in either basis"]
    for o in need:
        if agg["oracles"].get(o, {}).get("checked", 0) < 20:
            out.append(f"oracle '{o}' evaluated fewer than 20 times")
    for kind in ("ideal_isothermal", "ideal_non_isothermal", "non_ideal_isothermal", "non_ideal_non_isothermal"):
        if not any(k.startswith("process|" + kind + "|") for k in agg["classes"]):
            out.append(f"process kind {kind} not exercised")
    return out


LEVEL_TEXT = (
    "Exploration with basis twins: every public modelling entry point is executed on a mass-fraction composition and on the "
    "equivalent mole fraction and the outputs are compared (fluxes, permeate composition, separation factor, curve fluxes / "
    "permeances / separation factor / PSI / selectivity, non-ideal curves, complete trajectories of all 4 process kinds, "
    "extracted measurement points). Tolerances are the conversion's rounding times the measured sensitivity; the pinned "
    "defects of this class had effects of 7-70 %. The public driving-force routine is also called directly with the feed in either basis."
)
LEVEL_NOTE = "Trusted: the harness's own mass<->mole conversion (checked against exact rationals by C15's reference); process trajectories compared at 1e-6 relative."
TECHNIQUE = "runtime monitoring: offline relational checker over recorded twin executions (mass- vs mole-fraction input) of the real entry points"
