"""C14 - permeance unit conversion is an exact, invertible change of units."""
from .. import gen, guards

PROP = "C14"
LEVEL = "exploration"
RULE = (
    "case = (component, value) with the component a built-in one or a random molar mass 2..2000 g/mol and the value 0 "
    "or log-uniform in 1e-12..1e6; for each case all 9 ordered unit pairs, all 27 two-leg paths, a power-of-two and an "
    "arbitrary scaling are converted by the real Permeance.convert and compared with an independent factor table; "
    "missing-component and unknown-unit calls must raise; non-trivial = value > 0; distinct = distinct (M, value)"
)
ASSUMPTIONS = ["reference factors: SI = 1, GPU = 3.35e-10 SI, kg/(m2 h kPa) = 1/(3600 M) SI (as stated in the property)"]
EPS = 2.0**-52


def shards(tier, seed):
    n = {"quick": 250, "thorough": 25000}[tier]
    return [{"n": n} for _ in range(16)]


def _install_invariant():
    import icontract
    from pyvaporation.permeance import Permeance

    class PermeanceInvariantBroken(Exception):
        pass

    st = {"evals": 0}

    def value_not_negative(self):
        st["evals"] += 1
        return self.value >= 0

    icontract.invariant(value_not_negative, error=PermeanceInvariantBroken, enabled=True)(Permeance)  # enabled=True: also in the shards that run under python -O
    return st, PermeanceInvariantBroken


def _factor(units, M):
    return {"SI": 1.0, "GPU": 3.35e-10, "kg/(m2*h*kPa)": 1 / (M * 3.6e3)}[units]


def run_shard(spec, rep):
    from pyvaporation.components import Components
    from pyvaporation.permeance import Permeance, Units

    st, InvBroken = _install_invariant()
    U = [Units.kg_m2_h_kPa, Units.SI, Units.GPU]
    only = spec.get("only")
    for index in range(spec["n"]):
        if only is not None and index != only:
            continue
        rng = gen.case_rng(PROP, spec["seed"], spec["shard"], index)
        if rng.random() < 0.4:
            comp = getattr(Components, rng.choice(gen.BUILTIN_COMPONENTS))
        else:
            comp = gen.synth_component(rng, "S")
            comp.molecular_weight = gen.loguniform(rng, 2, 2000)
        M = comp.molecular_weight
        v = 0.0 if rng.random() < 0.05 else gen.loguniform(rng, 1e-12, 1e6)
        case = {"index": index, "component": comp.name, "M": M, "value": v}
        rep.case(case, nontrivial=v > 0, cls="builtin" if comp.name != "S" else "random-mass")
        try:
            for a in U:
                p = Permeance(value=v, units=gen._type_label(a))  # alternately the constant and an equal, non-identical string
                for b in U:
                    q = p.convert(gen._type_label(b), comp)
                    rep.count("conversions")
                    ref = v * _factor(a, M) / _factor(b, M)
                    c2 = dict(case, frm=a, to=b)
                    rep.require("result carries the target unit", q.units == b, c2, {"units": q.units})
                    rep.check("value = v*f(A)/f(B)", abs(q.value - ref), 4 * EPS * ref, c2, {"got": q.value, "ref": ref})
                    if a == b:
                        rep.require("equal units: identity", q is p or q.value == v, c2, {"got": q.value})
                    # invertible
                    back = q.convert(a, comp)
                    rep.check("A->B->A returns the value", abs(back.value - v), 8 * EPS * v, c2, {"back": back.value})
                    # linear: power of two exact, arbitrary factor to rounding
                    k2 = 2.0 ** rng.randint(-20, 20)
                    rep.require("linear (power-of-two factor exact)",
                                Permeance(value=v * k2, units=a).convert(b, comp).value == q.value * k2, c2, {"k": k2})
                    k = gen.loguniform(rng, 1e-3, 1e3)
                    qk = Permeance(value=v * k, units=a).convert(b, comp).value
                    rep.check("linear (arbitrary factor)", abs(qk - k * q.value), 8 * EPS * k * q.value, c2, {"k": k})
                    # path independence
                    for c in U:
                        via = p.convert(c, comp).convert(b, comp).value
                        rep.check("A->C->B equals A->B", abs(via - q.value), 8 * EPS * q.value, dict(c2, via=c), {"via": via, "direct": q.value})
            # legs of a path made with DIFFERENT components (a water permeance re-expressed as if it were ethanol's, ...): every
            # leg follows the factor table with the component given to that leg
            other = getattr(Components, rng.choice(gen.BUILTIN_COMPONENTS))
            M2 = other.molecular_weight
            for a in U:
                for b in U:
                    for c in U:
                        got = Permeance(value=v, units=a).convert(b, comp).convert(c, other).value
                        ref = v * _factor(a, M) / _factor(b, M) * _factor(b, M2) / _factor(c, M2)
                        rep.check("two legs with different components: each leg uses its own component", abs(got - ref), 8 * EPS * ref,
                                  dict(case, path=[a, b, c], second_component=other.name), {"got": got, "ref": ref})
            if comp.name == "S" and v > 0:
                # one Permeance object converted, then the component's molar mass corrected in place, then converted again
                pobj = Permeance(value=v, units=Units.SI)
                first = pobj.convert(Units.kg_m2_h_kPa, comp).value
                m_new = M * rng.uniform(1.05, 3.0)
                comp.molecular_weight = m_new
                second = pobj.convert(Units.kg_m2_h_kPa, comp).value
                ref2 = v * _factor(Units.SI, m_new) / _factor(Units.kg_m2_h_kPa, m_new)
                rep.check("same Permeance object, molar mass corrected in place: the conversion follows the new molar mass", abs(second - ref2), 4 * EPS * ref2,
                          dict(case, M_new=m_new), {"first": first, "second": second, "ref": ref2})
                comp.molecular_weight = M
            one = Permeance(value=1.0, units=Units.kg_m2_h_kPa).convert(Units.SI, comp).value
            rep.check("1 kg/(m2 h kPa) = 1/(3600 M) SI", abs(one - 1 / (3600 * M)), 4 * EPS / (3600 * M), case, {"got": one})
            rep.require("1 GPU = 3.35e-10 SI", Permeance(value=1.0, units=Units.GPU).convert(Units.SI).value == 3.35e-10, case)
            rep.require("1 GPU = 3.35e-10 SI", Permeance(value=1.0, units=Units.GPU).convert(Units.SI, comp).value == 3.35e-10, case)
            # SI <-> GPU needs no component
            g = Permeance(value=v, units=Units.SI).convert(Units.GPU).value
            rep.check("SI->GPU without component", abs(g - v / 3.35e-10), 4 * EPS * v / 3.35e-10, case)
            # must raise
            for val in (v + 1.0, v, 0.0, -1.0):  # also the value 0 (and a negative clipped to 0): no shortcut may skip the checks
                for a, b in ((Units.SI, Units.kg_m2_h_kPa), (Units.GPU, Units.kg_m2_h_kPa), (Units.kg_m2_h_kPa, Units.SI), (Units.kg_m2_h_kPa, Units.GPU)):
                    _must_raise(rep, "needs a component, given none: raises", lambda: Permeance(value=val, units=a).convert(b), dict(case, frm=a, to=b, value=val))
                for a, b in ((Units.SI, "bar"), ("bar", Units.SI), (Units.kg_m2_h_kPa, "mol/m2"), ("furlong", Units.GPU), ("barrer", "Barrer2")):
                    _must_raise(rep, "unknown unit: raises", lambda: Permeance(value=val, units=a).convert(b, comp), dict(case, frm=a, to=b, value=val))
                    _must_raise(rep, "unknown unit: raises", lambda: Permeance(value=val, units=a).convert(b), dict(case, frm=a, to=b, value=val, component=None))
            # never negative
            for neg in (-v - 1e-9, -1e-300, float("-inf")):
                rep.require("negative input never yields a negative value", Permeance(value=neg).value >= 0, case, {"input": repr(neg)})
        except InvBroken as e:
            rep.violation("class-invariant value>=0", case, {"error": str(e)})
        except Exception as e:
            rep.violation("valid conversion raised", case, {"error": repr(e)})
    if only is None:
        _library_permeances(spec, rep, InvBroken)
    rep.count("invariant_evaluations", st["evals"])
    if st["evals"] == 0:
        rep.mark_inconclusive("Permeance invariant never evaluated")


def _must_raise(rep, oracle, fn, case):
    try:
        r = fn()
    except Exception:
        rep.require(oracle, True, case)
    else:
        rep.require(oracle, False, case, {"returned": repr(r)})


def _library_permeances(spec, rep, InvBroken):
    """permeances created by the library (membrane queries, non-ideal process incl. negative fitted values)"""
    from pyvaporation.pervaporation import Pervaporation

    for index in range(10):
        rng = gen.case_rng(PROP + "lib", spec["seed"], spec["shard"], index)
        mix, mdesc = gen.gen_mixture(rng)
        mem = gen.gen_membrane(rng, mix)
        case = {"index": "lib%d" % index, "mixture": mdesc}
        try:
            for _ in range(20):
                t = rng.uniform(260, 420)
                p1 = mem.get_permeance(t, mix.first_component)
                p2 = mem.get_permeance(t, mix.second_component)
                rep.require("library permeance non-negative", p1.value >= 0 and p2.value >= 0, case)
                rep.count("library_permeances", 2)
        except InvBroken as e:
            rep.violation("class-invariant value>=0", case, {"error": str(e)})


def finalize(agg, tier):
    if agg["counters"].get("conversions", 0) < 1000:
        return ["fewer than 1000 conversions observed"]


LEVEL_TEXT = (
    "Exploration: the real Permeance.convert is executed for all 9 ordered unit pairs and all 27 two-leg paths on "
    "thousands of (molar mass, value) cases per run and compared with an independent factor table at 4-8 ulp; "
    "missing-component / unknown-unit calls are required to raise and a class invariant value >= 0 is armed on every "
    "Permeance constructed; two-leg paths are also made with a different component on each leg; one burst of concurrent conversions from 4 threads per shard must reproduce the serial values. "
    "Held means no oracle failed on this run's executions."
)
LEVEL_NOTE = "Trusted: the three unit factors stated in the property; seeded sampling reported in the evidence."
TECHNIQUE = "runtime monitoring: reference-table oracle + icontract class invariant over seeded executions of Permeance.convert"
