"""C01 - process models conserve total and per-component mass on a regular time grid."""
from .. import gen, proc

PROP = "C01"
LEVEL = "exploration"
RULE = (
    "case = one call of one of the 4 real process models: built-in or synthetic mixture x {NRTL, UNIQUAC} x permeate mode "
    "{vacuum, temperature, pressure, small pressure, p=0} x membrane with random Arrhenius experiments (ideal kinds) or a "
    "synthetic composition-/temperature-dependent curve set with fit orders 0..1, optional initial permeances in any unit "
    "(non-ideal kinds) x area 1e-3..1e2 m2 x feed 1e-2..1e3 kg x composition as mass or mole fraction x 1..30 steps whose "
    "length is chosen so that the first step removes 1e-5..3e-2 (8 %: 1e-12..1e-8) of the feed, plus one ideal run of 1001..2300 steps per shard x optional polynomial / exponential / "
    "logarithmic programme. Every returned model is checked step by step, and re-run with one more step (prefix "
    "consistency decides the last step). non-trivial = the call returned with >= 2 steps; distinct = distinct inputs"
)
ASSUMPTIONS = [
    "runs that raise (e.g. negative driving force) or exceed 20000 evaluations in one flux calculation are counted, not judged",
    "balance tolerance 64 ulp of the largest term entering the identity",
]
SHARD_TIMEOUT = {"quick": 1500, "thorough": 14000}


def shards(tier, seed):
    ni, nn, nl, nc = {"quick": (50, 8, 1, 12), "thorough": (2500, 200, 12, 400)}[tier]
    return [{"n_ideal": ni, "n_nonideal": nn, "n_long": nl, "n_coarse": nc} for _ in range(16)]


def cases(spec):
    for i in range(spec.get("n_long", 0)):
        yield 200000 + i, proc.KINDS[:2]
    for i in range(spec["n_ideal"]):
        yield i, proc.KINDS[:2]
    for i in range(spec["n_nonideal"]):
        yield 100000 + i, proc.KINDS[2:]
    for i in range(spec.get("n_coarse", 0)):
        yield 300000 + i, proc.KINDS[:2]


def run_shard(spec, rep):
    only = spec.get("only")
    for index, kinds in cases(spec):
        if only is not None and index != only:
            continue
        if rep.n_violations >= 20:
            break
        rng = gen.case_rng(PROP, spec["seed"], spec["shard"], index)
        # coarse steps (a step may strip a component or the whole feed: the library then raises, a returned run must balance)
        sc = proc.Scenario(rng, kinds=kinds, coarse=True, max_steps=6) if index >= 300000 else proc.Scenario(rng, kinds=kinds)
        if 200000 <= index < 300000:
            # a long run: more than a thousand steps (step-count dependent maintenance code, accumulated drift)
            sc.n = rng.randint(1001, 2300)
            if sc.dt is not None:
                sc.dt = sc.dt * min(1.0, 0.5 / (sc.n * sc.f0))
            sc.precision = gen.loguniform(rng, 1e-5, 1e-3)
        case = dict(sc.describe(), index=index)
        status, model = sc.run()
        rep.count("runs_" + status)
        rep.case(case, nontrivial=(status == "ok" and sc.n >= 2), cls=sc.cls())
        if status != "ok":
            if status == "raised":
                rep.count("raised_" + type(model).__name__)
            continue
        try:
            if not proc.series_lengths(rep, case, model, sc.n):
                continue
            proc.mass_balance(rep, case, sc, model)
            rep.count("steps_checked", max(0, sc.n - 1))
            # the last step has no successor in the report: it is decided by the (N+1)-step run
            st2, longer = sc.run(n=sc.n + 1)
            if st2 == "ok":
                a, b = proc.model_fingerprint(model), proc.model_fingerprint(longer, upto=sc.n)
                diff = proc.first_difference(a, b)
                rep.require("N-step run = first N entries of the (N+1)-step run (bitwise)", diff is None, case, diff)
                if proc.series_lengths(rep, case, longer, sc.n + 1):
                    proc.mass_balance(rep, case, sc, longer)
                    rep.count("last_steps_decided_through_prefix")
            else:
                rep.count("prefix_run_" + st2)
        except Exception as e:
            rep.harness_error(f"C01 judge {e!r}", e)


def finalize(agg, tier):
    out = []
    c = agg["counters"]
    if c.get("runs_ok", 0) < 0.25 * agg["cases"]:
        out.append(f"only {c.get('runs_ok', 0)} of {agg['cases']} runs returned")
    for kind in ("ideal_isothermal", "ideal_non_isothermal", "non_ideal_isothermal", "non_ideal_non_isothermal"):
        if not any(k.startswith(kind + "|") for k in agg["classes"]):
            out.append(f"process kind {kind} not exercised")
    if agg["oracles"].get("total mass balance per step", {}).get("checked", 0) < 200:
        out.append("fewer than 200 step balances checked")
    return out


LEVEL_TEXT = (
    "Exploration: hundreds (quick) to tens of thousands (thorough) of real process-model calls of all four kinds, three "
    "permeate modes, both activity models and both composition bases; a post-condition recomputes both balances of every "
    "reported step from the reported fluxes at 64 ulp of the largest term, checks series lengths, the time grid and the "
    "initial values bitwise, and decides the otherwise unobservable last step by bitwise prefix consistency with an "
    "(N+1)-step run. Held means no oracle failed on this run's executions."
)
LEVEL_NOTE = "Trusted: exact-rational reference for the initial mass fraction; runs that raise are not judged (their share is in the evidence)."
TECHNIQUE = "runtime monitoring: post-condition (conservation) on every reported step + prefix-consistency twin over seeded executions of the real process models"
