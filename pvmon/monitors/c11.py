"""C11 - process models scale correctly with size and with the area/time trade-off."""
import math

from .. import gen, proc

PROP = "C11"
LEVEL = "exploration"
RULE = (
    "case = one admissible call of one of the 4 real process models (C01's workload) plus four twins run through the same "
    "real code: (a) area and feed x 2^n, (b) area x 2^n with step / 2^n (no programme), (c) area and feed x k with k "
    "log-uniform in 1e-3..1e3, (d) unrelated area, feed amount and step (step-0 fluxes only). non-trivial = base and at "
    "least one twin returned with >= 2 steps; distinct = distinct inputs"
)
ASSUMPTIONS = [
    "power-of-two factors are exact in binary floating point, so (a) and (b) are compared bitwise",
    "arbitrary-factor twins are judged only when the permeate-composition map is locally contractive (L < 0.9) at every reported step - otherwise the iteration ends at a last-bit-dependent iterate - and the trajectory does not run away",
    "for arbitrary factors the two runs differ by rounding only: 1e-11 relative plus 1e-12 x steps x the measured conditioning of the trajectory (1/min(w,1-w), 1/min(y,1-y), P*p_feed/|J|), capped at 1e-6",
]
SHARD_TIMEOUT = {"quick": 1500, "thorough": 14000}


def shards(tier, seed):
    ni, nn = {"quick": (40, 24), "thorough": (2000, 1000)}[tier]
    return [{"n_ideal": ni, "n_nonideal": nn} for _ in range(16)]


def scaled_conditions(sc, area_f=1.0, mass_f=1.0):
    from pyvaporation.conditions import Conditions

    c = sc.conditions
    # float(): the harness must not scale in a narrow numpy dtype of the caller's scalars
    return Conditions(membrane_area=float(c.membrane_area) * area_f, initial_feed_temperature=c.initial_feed_temperature,
                      initial_feed_amount=float(c.initial_feed_amount) * mass_f, initial_feed_composition=c.initial_feed_composition,
                      permeate_temperature=c.permeate_temperature, permeate_pressure=c.permeate_pressure,
                      temperature_program=c.temperature_program)


INTENSIVE = ["feed_temperature", "feed_compositions", "permeate_composition", "partial_fluxes", "permeances"]
EXTENSIVE = ["feed_mass", "feed_evaporation_heat", "permeate_condensation_heat"]


def conditioning(sc, base, upto=None):
    """how strongly a rounding-level perturbation of the state is amplified in the reported series: 1/min(w,1-w) (the
    minor fraction is recovered as 1 - major), 1/min(y,1-y), and P*p_feed/|J| (driving force as a difference).
    With `upto`: -> (conditioning of the steps before the first one whose own amplification exceeds `upto`, that step's index)"""
    from pyvaporation.mixtures import get_partial_pressures

    c = 1.0
    for k in range(len(base.time)):
        before = c
        w, y = base.feed_compositions[k].p, base.permeate_composition[k].p
        for v in (w, y):
            if 0 < v < 1:
                c = max(c, 1 / min(v, 1 - v))
        try:
            pf = get_partial_pressures(base.feed_temperature[k], sc.mix, base.feed_compositions[k], sc.model)
            for i in (0, 1):
                j = abs(float(base.partial_fluxes[k][i]))
                if j > 0:
                    c = max(c, base.permeances[k][i].value * abs(float(pf[i])) / j)
        except Exception:
            pass
        if upto is not None and c > upto:
            return before * max(1, k), k
    if upto is not None:
        return c * max(1, len(base.time)), len(base.time)
    return c * max(1, len(base.time))


def compare(rep, oracle, case, base, twin, factor, exact, include_time=True, rel=1e-11, upto=None):
    a, b = proc.model_fingerprint(base), proc.model_fingerprint(twin)
    if upto is not None:
        a = {k: (v[:upto] if isinstance(v, list) else v) for k, v in a.items()}
        b = {k: (v[:upto] if isinstance(v, list) else v) for k, v in b.items()}
    for key in INTENSIVE + (["time"] if include_time else []):
        if exact:
            if a[key] != b[key]:
                rep.require(oracle, False, case, dict(proc.first_difference({key: a[key]}, {key: b[key]}), factor=factor))
                return
        else:
            for i, (u, v) in enumerate(zip(_flat(a[key]), _flat(b[key]))):
                x, y = float.fromhex(u), float.fromhex(v)
                if abs(x - y) > rel * max(abs(x), abs(y)):
                    rep.require(oracle, False, case, {"series": key, "i": i, "base": x, "twin": y, "factor": factor})
                    return
    for key in EXTENSIVE:
        for i, (u, v) in enumerate(zip(a[key], b[key])):
            if u is None or v is None:
                ok = u is None and v is None
                x = y = None
            else:
                x, y = float.fromhex(u), float.fromhex(v)
                ok = (y == x * factor) if exact else abs(y - x * factor) <= rel * abs(x * factor)
            if not ok:
                rep.require(oracle, False, case, {"series": key, "step": i, "base": x, "twin": y, "factor": factor})
                return
    rep.require(oracle, True, case)


def _flat(seq):
    for v in seq:
        if isinstance(v, list):
            yield from v
        else:
            yield v


def run_shard(spec, rep):
    from .c01 import cases

    only = spec.get("only")
    for index, kinds in cases(spec):
        if only is not None and index != only:
            continue
        if rep.n_violations >= 20:
            break
        rng = gen.case_rng(PROP, spec["seed"], spec["shard"], index)
        sc = proc.Scenario(rng, kinds=kinds, max_steps=20, nonideal_orders=0)  # cheap fits: scaling is the subject
        n2 = rng.choice([-10, -7, -3, -1, 1, 2, 5, 10])  # 2^-10 .. 2^10 spans the 1e-3..1e3 of the property
        k = gen.loguniform(rng, 1e-3, 1e3)
        case = dict(sc.describe(), index=index, pow2=n2, k=k)
        status, base = sc.run()
        rep.count("base_" + status)
        if status != "ok":
            rep.case(case, nontrivial=False, cls=sc.cls())
            continue
        twins = 0
        try:
            f = 2.0**n2
            st, tw = sc.run(conditions=scaled_conditions(sc, f, f))
            if st == "ok":
                twins += 1
                compare(rep, "area and feed x 2^n: intensive series bit-identical, masses and heats x 2^n exactly", case, base, tw, f, True)
            else:
                rep.require("twin run has the same outcome as the base run", st == "slow", case, {"twin": "size x 2^n", "outcome": st, "error": repr(tw)})
            if sc.program is None:
                st, tw = sc.run(conditions=scaled_conditions(sc, f, 1.0), dt=sc.dt / f)
                if st == "ok":
                    twins += 1
                    compare(rep, "area x 2^n, step / 2^n: every per-step state bit-identical", case, base, tw, 1.0, True, include_time=False)
                else:
                    rep.require("twin run has the same outcome as the base run", st == "slow", case, {"twin": "area/time", "outcome": st, "error": repr(tw)})
            st, tw = sc.run(conditions=scaled_conditions(sc, k, k))
            if st == "ok" and proc.runaway(base, sc.m0):
                rep.count("arbitrary_factor_twin_skipped(runaway trajectory)")
            elif st == "ok" and proc.non_contractive(sc, base):
                rep.count("arbitrary_factor_twin_skipped(non-contractive fixed-point map at some step)")
            elif st == "ok":
                # judged up to the first step whose own amplification of a rounding-level perturbation exceeds 1e4 (a component
                # all but exhausted: its fraction 1e-11 is recovered as 1 - w): from there on the two runs legitimately drift apart
                cond, good = conditioning(sc, base, upto=1e4)
                if good < len(base.time):
                    rep.count("arbitrary_factor_twin_judged_up_to_an_ill_conditioned_step")
                if good >= 1:
                    twins += 1
                    compare(rep, "area and feed x k: intensive series unchanged, masses and heats x k (1e-11)", case, base, tw, k, False,
                            rel=min(1e-6, 1e-12 * cond + 1e-11), upto=good)
            elif st == "raised":
                rep.count("arbitrary_factor_twin_raised")
            # step-0 fluxes never depend on area, amount or step length
            a2, m2, d2 = gen.loguniform(rng, 1e-3, 1e3), gen.loguniform(rng, 1e-3, 1e3), gen.loguniform(rng, 1e-3, 1e3)
            st, tw = sc.run(conditions=scaled_conditions(sc, a2, m2), dt=sc.dt * d2, n=1)
            if st == "ok":
                f0, g0 = base.partial_fluxes[0], tw.partial_fluxes[0]
                rep.require("step-0 fluxes independent of area, feed amount and step length (bitwise)",
                            float(f0[0]) == float(g0[0]) and float(f0[1]) == float(g0[1]), case,
                            {"base": [float(f0[0]), float(f0[1])], "twin": [float(g0[0]), float(g0[1])]})
            else:
                rep.count("step0_twin_" + st)
        except Exception as e:
            rep.harness_error(f"C11 judge {e!r}", e)
        rep.case(case, nontrivial=(twins > 0 and sc.n >= 2), cls=sc.cls())


def finalize(agg, tier):
    out = []
    for o in ("area and feed x 2^n: intensive series bit-identical, masses and heats x 2^n exactly",
              "area x 2^n, step / 2^n: every per-step state bit-identical",
              "area and feed x k: intensive series unchanged, masses and heats x k (1e-11)",
              "step-0 fluxes independent of area, feed amount and step length (bitwise)"):
        if agg["oracles"].get(o, {}).get("checked", 0) < 50:
            out.append(f"oracle '{o}' evaluated fewer than 50 times")
    return out


LEVEL_TEXT = (
    "Exploration with metamorphic twins: each admissible process run is repeated through the real code with area and feed "
    "scaled by a power of two (bitwise comparison of every series), with the area/step trade-off (bitwise), with an "
    "arbitrary factor (1e-11 relative) and with unrelated extensive inputs (step-0 fluxes bitwise). Held means no twin "
    "disagreed on this run's executions."
)
LEVEL_NOTE = "Trusted: exactness of power-of-two scaling in IEEE arithmetic (no under/overflow in the sampled ranges)."
TECHNIQUE = "runtime monitoring: offline relational checker over recorded twin executions (scaling metamorphic relations) of the real process models"
