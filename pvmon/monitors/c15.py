"""C15 - mole-/mass-fraction conversion is a consistent bijection.

Oracle: exact rational image (fractions.Fraction of the float inputs) of the real
`Composition.to_molar/to_weight`, round trips, fixed points, monotonicity, ratio law,
constructor rejection, plus an icontract class invariant 0 <= p <= 1 that stays armed
while the library itself creates compositions (flux solver + a process model).
"""
import math
from fractions import Fraction

from .. import gen, guards

PROP = "C15"
LEVEL = "exploration"
RULE = (
    "case = one pair of molar masses (built-in mixture or random masses, ratio up to 1e3) with 24 fractions "
    "(uniform, log-dense within 1e-15 of 0 and 1, exact 0 and 1); every fraction is converted both ways by the real "
    "Composition methods and compared with the exact rational image; non-trivial = molar masses differ and at least "
    "one fraction lies strictly inside (0,1); distinct = distinct (masses, fractions) tuples"
)
ASSUMPTIONS = [
    "fractions.Fraction arithmetic is exact",
    "molar masses are positive finite floats",
]
EPS = 2.0**-52
N_POINTS = 24


def shards(tier, seed):
    n = {"quick": 200, "thorough": 12000}[tier]
    return [{"n": n} for _ in range(16)]


def _fractions(rng):
    out = [0.0, 1.0]
    while len(out) < N_POINTS:
        u = rng.random()
        if u < 0.4:
            out.append(rng.random())
        elif u < 0.7:
            out.append(10 ** (-rng.uniform(0, 15)))
        else:
            out.append(1 - 10 ** (-rng.uniform(0, 15)))
    return out


def _exact_molar(p, m1, m2):
    p, m1, m2 = Fraction(p), Fraction(m1), Fraction(m2)
    return (p / m1) / (p / m1 + (1 - p) / m2)


def _exact_weight(p, m1, m2):
    p, m1, m2 = Fraction(p), Fraction(m1), Fraction(m2)
    return (p * m1) / (p * m1 + (1 - p) * m2)


def _install_invariant(rep):
    import icontract
    from pyvaporation.mixtures import Composition

    class CompositionInvariantBroken(Exception):
        pass

    state = {"evals": 0}

    def fraction_in_unit_interval(self):
        state["evals"] += 1
        return 0 <= self.p <= 1

    icontract.invariant(fraction_in_unit_interval, error=CompositionInvariantBroken, enabled=True)(Composition)  # enabled=True: also under python -O
    return state, CompositionInvariantBroken


def run_shard(spec, rep):
    from pyvaporation.mixtures import Composition, CompositionType, Mixtures

    # a failed call somewhere else in the library must not switch validation off for the rest of the process
    try:
        from pyvaporation.mixtures import VLEPoints, fit_vle
        from .. import bootstrap

        data = VLEPoints.from_csv(bootstrap.repo_root() / "tests" / "VLE_data" / "binary" / "MeOH_DMC.csv")
        try:
            fit_vle(data, method="no-such-method")
        except Exception:
            rep.count("failed_library_call_before_the_rejection_checks")
    except Exception:
        rep.count("vle_data_unavailable")
    inv_state, InvBroken = _install_invariant(rep)
    only = spec.get("only")
    for index in range(spec["n"]):
        if only is not None and index != only:
            continue
        rng = gen.case_rng(PROP, spec["seed"], spec["shard"], index)
        if rng.random() < 0.35:
            name = rng.choice(gen.BUILTIN_MIXTURES)
            mix = getattr(Mixtures, name)
            mdesc = name
        else:
            mix = gen.synth_mixture(rng)
            ratio = 10 ** rng.uniform(-3, 3)
            if rng.random() < 0.05:
                ratio = 1.0  # isomers: exactly equal molar masses (mass and mole fractions coincide, the labels do not)
            m1 = gen.loguniform(rng, 2, 500)
            mix.first_component.molecular_weight = m1
            mix.second_component.molecular_weight = m1 * ratio
            mdesc = [m1, m1 * ratio]
        m1 = mix.first_component.molecular_weight
        m2 = mix.second_component.molecular_weight
        cond = max(1.0, m1 / m2, m2 / m1)
        ps = _fractions(rng)
        case = {"index": index, "masses": mdesc, "fractions": ps}
        rep.case(case, nontrivial=True, cls="builtin" if isinstance(mdesc, str) else ("equal-masses" if m1 == m2 else "random-masses"))
        try:
            _one_group(rep, case, mix, m1, m2, cond, ps, Composition, CompositionType)
        except InvBroken as e:
            rep.violation("class-invariant 0<=p<=1", case, {"error": str(e)})
        except Exception as e:  # the conversion must not raise on valid input
            rep.violation("conversion raised on a valid fraction", case, {"error": repr(e)})
        # the same Composition OBJECT converted for a second mixture, and again after its fraction was reassigned
        try:
            _same_object_history(rep, case, mix, rng, Composition, CompositionType)
            _tamper_returned(rep, case, mix, rng, Composition, CompositionType)
        except InvBroken as e:
            rep.violation("class-invariant 0<=p<=1", case, {"error": str(e)})
        except Exception as e:  # valid fractions (0 and 1 included) must be accepted and converted
            rep.violation("conversion raised on a valid fraction", case, {"error": repr(e)})
        # constructor rejection
        for bad in (float("nan"), float("inf"), float("-inf"), -1e-300, 1 + EPS, -rng.random() - 1e-9, 1 + rng.random() + 1e-9):
            for typ in (CompositionType.weight, CompositionType.molar):
                try:
                    Composition(p=bad, type=typ)
                except InvBroken:
                    # the LIBRARY accepted the value; only the harness's own class invariant objected afterwards
                    rep.require("out-of-range fraction rejected", False, case, {"accepted": repr(bad), "type": typ, "caught_by": "harness invariant only"})
                except Exception:
                    rep.require("out-of-range fraction rejected", True, case)
                else:
                    rep.require("out-of-range fraction rejected", False, case, {"accepted": repr(bad), "type": typ})
    # compositions created by the library itself, invariant armed
    if only is None:
        _library_compositions(spec, rep, InvBroken)
    rep.count("invariant_evaluations", inv_state["evals"])
    if inv_state["evals"] == 0:
        rep.mark_inconclusive("Composition invariant was never evaluated")


def _tamper_returned(rep, case, mix, rng, Composition, CompositionType):
    """the caller recycles a Composition it got back from a conversion (assigns a new fraction to it): later conversions
    of the same input must still be the exact image"""
    m1, m2 = mix.first_component.molecular_weight, mix.second_component.molecular_weight
    for typ, conv, exact in ((CompositionType.weight, "to_molar", _exact_molar), (CompositionType.molar, "to_weight", _exact_weight)):
        p = rng.choice([0.0, 1.0, rng.uniform(0.05, 0.95), rng.uniform(0.05, 0.95)])
        r = getattr(Composition(p=p, type=typ), conv)(mix)
        r.p = rng.uniform(0.05, 0.95)
        got = getattr(Composition(p=p, type=typ), conv)(mix).p
        ex = exact(p, m1, m2)
        rep.check("a recycled (re-assigned) returned Composition does not affect later conversions", abs(Fraction(got) - ex), 8 * EPS * ex + Fraction(4e-323),
                  dict(case, conversion=conv, p=p), {"got": got, "exact": float(ex)})


def _same_object_history(rep, case, mix, rng, Composition, CompositionType):
    other = gen.synth_mixture(rng)
    other.first_component.molecular_weight = gen.loguniform(rng, 2, 500)
    other.second_component.molecular_weight = gen.loguniform(rng, 2, 500)
    for typ, conv, exact in ((CompositionType.weight, "to_molar", _exact_molar), (CompositionType.molar, "to_weight", _exact_weight)):
        c = Composition(p=rng.uniform(0.05, 0.95), type=typ)
        for step, mx in enumerate((mix, other, mix)):
            if step == 2:
                c.p = rng.uniform(0.05, 0.95)  # the object is an ordinary mutable value holder
            got = getattr(c, conv)(mx).p
            ex = exact(c.p, mx.first_component.molecular_weight, mx.second_component.molecular_weight)
            rep.check("one Composition object, several mixtures / reassigned fraction: every conversion is the exact image",
                      abs(Fraction(got) - ex), 8 * EPS * ex, dict(case, conversion=conv, step=step), {"p": c.p, "got": got, "exact": float(ex)})


def _one_group(rep, case, mix, m1, m2, cond, ps, Composition, CompositionType):
    results_m, results_w = [], []
    for p in ps:
        w = Composition(p=p, type=gen._type_label("weight"))  # alternately the constant and an equal, non-identical string
        x = w.to_molar(mix)
        rep.count("conversions", 2)
        ex = _exact_molar(p, m1, m2)
        exf = float(ex)
        rep.check("to_molar within 8 ulp of exact image", abs(Fraction(x.p) - ex), 8 * EPS * ex + Fraction(4e-323), case,
                  {"p": p, "got": x.p, "exact": exf})
        rep.require("to_molar result typed molar", x.type == CompositionType.molar, case)
        rep.require("to_molar of molar / to_weight of weight is identity",
                    x.to_molar(mix) is x and w.to_weight(mix) is w, case)
        results_m.append((p, x.p, ex))
        # reverse direction on the same numeric value
        xm = Composition(p=p, type=gen._type_label("molar"))
        ww = xm.to_weight(mix)
        rep.require("conversion to the basis a composition already has returns it unchanged (whatever string object names the basis)",
                    xm.to_molar(mix).p == p and w.to_weight(mix).p == p and xm.to_molar(mix).type == "molar" and w.to_weight(mix).type == "weight", case,
                    {"p": p, "to_molar(molar)": xm.to_molar(mix).p, "to_weight(weight)": w.to_weight(mix).p})
        ew = _exact_weight(p, m1, m2)
        rep.check("to_weight within 8 ulp of exact image", abs(Fraction(ww.p) - ew), 8 * EPS * ew + Fraction(4e-323), case,
                  {"p": p, "got": ww.p, "exact": float(ew)})
        rep.require("to_weight result typed weight", ww.type == CompositionType.weight, case)
        results_w.append((p, ww.p, ew))
        # round trips
        back = x.to_weight(mix).p
        rep.check("mass->mole->mass round trip", abs(back - p), 16 * EPS * cond, case, {"p": p, "back": back})
        back2 = ww.to_molar(mix).p
        rep.check("mole->mass->mole round trip", abs(back2 - p), 16 * EPS * cond, case, {"p": p, "back": back2})
        # fixed points
        if p == 0.0 or p == 1.0:
            rep.require("0 and 1 are fixed exactly", x.p == p and ww.p == p, case, {"p": p, "molar": x.p, "weight": ww.p})
        # first + second
        for c in (x, ww):
            rep.check("first+second = 1", abs((c.first + c.second) - 1.0), EPS, case, {"p": c.p})
        # ratio law  x1/x2 = (w1/w2) * M2/M1
        if 0 < p < 1 and 0 < x.p < 1:
            lhs = x.first / x.second
            rhs = (w.first / w.second) * (m2 / m1)
            # 1-x and 1-p carry an absolute rounding error of one ulp of 1
            c = 1 + 1 / (1 - x.p) + 1 / (1 - p)
            rep.check("mole ratio = mass ratio * M2/M1", abs(lhs - rhs) / rhs, 16 * EPS * c, case,
                      {"p": p, "lhs": lhs, "rhs": rhs})
    for series, name in ((results_m, "to_molar"), (results_w, "to_weight")):
        series.sort()
        for (p0, y0, e0), (p1, y1, e1) in zip(series, series[1:]):
            rep.require(f"{name} non-decreasing", y1 >= y0, case, {"p0": p0, "p1": p1, "y0": y0, "y1": y1})
            if e1 - e0 > 16 * EPS * max(e1, Fraction(1, 10**300)):
                rep.require(f"{name} strictly increasing", y1 > y0, case, {"p0": p0, "p1": p1, "y0": y0, "y1": y1})


def _library_compositions(spec, rep, InvBroken):
    """drive the flux solver and an ideal process with the invariant armed"""
    from pyvaporation.pervaporation import Pervaporation
    from pyvaporation.conditions import Conditions

    for index in range(12):
        rng = gen.case_rng(PROP + "lib", spec["seed"], spec["shard"], index)
        mix, mdesc = gen.gen_mixture(rng)
        mem = gen.gen_membrane(rng, mix)
        pv = Pervaporation(mem, mix)
        comp = gen.gen_composition(rng, mix)
        t = rng.uniform(290, 370)
        mode = rng.choice(["V", "T", "P"])
        try:
            tp, pp = gen.gen_permeate(rng, mode, mix, t, comp)
        except Exception:
            tp, pp = None, None
        case = {"index": "lib%d" % index, "mixture": mdesc, "T": t, "x": gen.describe_composition(comp), "Tp": tp, "pp": pp}
        try:
            with guards.budget(5000):
                cond = Conditions(membrane_area=1.0, initial_feed_temperature=t, initial_feed_amount=10.0,
                                  initial_feed_composition=comp, permeate_temperature=tp, permeate_pressure=pp)
                j = gen.initial_total_flux(pv, t, comp, tp, pp, "NRTL")
                dt = 0.01 * 10.0 / max(abs(j[0] + j[1]), 1e-30)
                pv.ideal_non_isothermal_process(cond, 8, dt)
            rep.count("library_runs_under_invariant")
        except InvBroken as e:
            rep.violation("class-invariant 0<=p<=1", case, {"error": str(e)})
        except guards.BudgetExceeded:
            rep.count("skipped_slow")
        except Exception:  # ValueError for an inadmissible state, OverflowError for a vapour pressure beyond float range (cryogenic trap)
            rep.count("library_runs_raised")


def finalize(agg, tier):
    out = []
    if agg["counters"].get("conversions", 0) < 1000:
        out.append("fewer than 1000 conversions observed")
    return out

LEVEL_TEXT = (
    "Exploration: the real Composition.to_molar/to_weight are executed on thousands of (molar-mass pair, fraction) "
    "groups per run, including fractions within 1e-15 of 0 and 1 and molar-mass ratios up to 1e3, and every result is "
    "compared with the exact rational image, so any formula slip larger than 8 ulp, a broken fixed point, a "
    "non-monotone step or an accepted out-of-range fraction in the sampled domain is seen; returned objects are re-assigned "
    "by the caller before the conversion is repeated, and a burst of concurrent conversions must reproduce the serial values. Held means: no oracle "
    "failed on the executions of this run."
)
LEVEL_NOTE = "Trusted: fractions.Fraction, the sampling of the domain (seeded, reported in the evidence); nothing is claimed for inputs that were not generated."
TECHNIQUE = "runtime monitoring: exact-rational reference oracle + icontract class invariant over seeded executions of the real conversion code"
