"""C02 - returned fluxes obey the solution-diffusion law at a self-consistent permeate."""
import math

from .. import gen, guards

PROP = "C02"
LEVEL = "exploration"
RULE = (
    "case = one call of the real calculate_partial_fluxes: mixture (8 built-in + synthetic) x {NRTL, UNIQUAC} x permeate "
    "mode {vacuum, Tp uniform 120 K..T_feed, Tp within ~8 K of T_feed, p 0..100 kPa, p 0..2 kPa, p = 0} x permeances "
    "1e-6..1 (explicit, or taken from a membrane with the optional arguments omitted) x feed mass fraction "
    "0.001..0.999 given as mass or mole fraction x T 273-400 K x precision 1e-8..1e-3; every case is run three times "
    "(as is, permeances x 2^n, permeances x k). The driving-force evaluations inside the call are tapped to learn the "
    "permeate composition y* the result was evaluated at. non-trivial = the call returned and a permeate condition "
    "was present (the iteration ran); distinct = distinct input tuples"
)
ASSUMPTIONS = [
    "feed/permeate partial pressures are taken from the library's public get_partial_pressures (C04 owns the thermodynamics)",
    "in permeate-pressure mode the permeate partial pressure may be p times the mass OR the mole fraction of y* (the statement does not fix the basis; see KF-PMODE-BASIS under C09)",
    "calls abandoned after 120000 driving-force evaluations are counted, not judged (termination is C10's)",
]
EPS = 2.0**-52
SOFT_BUDGET = 120000  # above the library's own cap of 100000 iterations: slowly converging contractive states are judged

ANCHORS = [('pervaporation/pervaporation.py', 'permeate_pressure * permeate_composition.first', 'permeate-pressure branch of the driving force'), ('pervaporation/pervaporation.py', 'permeate_temperature, self.mixture, permeate_composition', 'permeate-temperature branch of the driving force'), ('pervaporation/pervaporation.py', 'permeate_nrtl_partial_pressures = (0, 0)', 'vacuum branch of the driving force')]


def shards(tier, seed):
    n = {"quick": 1000, "thorough": 60000}[tier]
    return [{"n": n} for _ in range(16)]


def ref_fluxes(fc, y, p1, p2, basis="weight"):
    """P_i * (p_feed_i - p_perm_i(y)) from the public thermodynamics; y = permeate mass fraction of component 1"""
    from pyvaporation.mixtures import Composition, CompositionType, get_partial_pressures

    pf = get_partial_pressures(fc.t_feed, fc.mix, fc.comp, fc.model)
    if fc.tp is None and fc.pp is None:
        perm = (0, 0)
    elif fc.tp is not None:
        perm = get_partial_pressures(fc.tp, fc.mix, Composition(p=y, type=CompositionType.weight), fc.model)
    else:
        if basis == "weight":
            perm = (fc.pp * y, fc.pp * (1 - y))
        else:
            m1, m2 = fc.mix.first_component.molecular_weight, fc.mix.second_component.molecular_weight
            x = (y / m1) / (y / m1 + (1 - y) / m2)
            perm = (fc.pp * x, fc.pp * (1 - x))
    return (p1 * (pf[0] - perm[0]), p2 * (pf[1] - perm[1])), pf, perm


def g_map(fc, y, p1, p2):
    j, _, _ = ref_fluxes(fc, min(1.0, max(0.0, y)), p1, p2)
    return j[0] / (j[0] + j[1])


def flip_temperature(fc, rng):
    """A permeate temperature just below the point where the permeate-composition map of this state stops contracting
    (g'(y*) = -1, the flip that gives birth to the attracting 2-cycles): there the iteration still converges, but
    arbitrarily slowly ('critical slowing down').  -> temperature or None when this state has no such point."""
    import copy

    p1, p2 = fc.p1.value, fc.p2.value
    probe = copy.copy(fc)
    probe.pp = None

    def slope(tp):
        probe.tp = tp
        lo, hi = 1e-9, 1 - 1e-9
        try:
            flo = g_map(probe, lo, p1, p2) - lo
            fhi = g_map(probe, hi, p1, p2) - hi
            if not (flo > 0 > fhi):
                return None
            for _ in range(60):
                mid = 0.5 * (lo + hi)
                if g_map(probe, mid, p1, p2) - mid > 0:
                    lo = mid
                else:
                    hi = mid
            y, h = 0.5 * (lo + hi), 1e-6
            if not (2 * h < y < 1 - 2 * h):
                return None
            return (g_map(probe, y + h, p1, p2) - g_map(probe, y - h, p1, p2)) / (2 * h)
        except Exception:
            return None

    hi_t = fc.t_feed - 1e-3
    lo_t = fc.t_feed - 60.0
    s_hi, s_lo = slope(hi_t), slope(lo_t)
    if s_hi is None or s_lo is None or not (s_hi < -1 < s_lo):
        return None
    for _ in range(50):
        mid = 0.5 * (lo_t + hi_t)
        sm = slope(mid)
        if sm is None:
            return None
        if sm < -1:
            hi_t = mid
        else:
            lo_t = mid
    return lo_t - rng.choice([1e-2, 1e-3, 3e-4, 1e-4, 1e-5, 1e-6, 0.0])


def lipschitz(fc, ystar, p1, p2, precision):
    """local contraction factor of the permeate-composition map around y* (sup over y*, y* +- precision)"""
    worst = 0.0
    for c in (ystar, ystar - precision, ystar + precision):
        c = min(1 - 2e-7, max(2e-7, c))
        h = 1e-7
        try:
            l = abs(g_map(fc, c + h, p1, p2) - g_map(fc, c - h, p1, p2)) / (2 * h)
        except Exception:
            return float("inf")
        if not l == l:
            return float("inf")
        worst = max(worst, l)
    return worst


def call(fc, p1=None, p2=None):
    """-> ('ok', fluxes, taps) | ('raised', exc, None) | ('slow', None, None)"""
    kw = fc.kwargs()
    if p1 is not None:
        kw["first_component_permeance"], kw["second_component_permeance"] = p1, p2
    try:
        with guards.budget(SOFT_BUDGET), guards.tap() as taps:
            if int(float(fc.precision).hex()[4:9], 16) % 3 == 0:
                # a third of the cases call positionally, in the released order of the parameters
                j = fc.pv.calculate_partial_fluxes(kw["feed_temperature"], kw["composition"], kw["precision"], kw["permeate_temperature"], kw["permeate_pressure"],
                                                   kw.get("first_component_permeance"), kw.get("second_component_permeance"), kw["calculation_type"])
            else:
                j = fc.pv.calculate_partial_fluxes(**kw)
        return "ok", (float(j[0]), float(j[1])), list(taps)
    except guards.BudgetExceeded:
        return "slow", None, None
    except Exception as e:  # the solver may reject a state (negative driving force -> invalid composition)
        return "raised", e, None


def run_shard(spec, rep):
    from pyvaporation.permeance import Permeance

    only = spec.get("only")
    for index in range(spec["n"]):
        if only is not None and index != only:
            continue
        rng = gen.case_rng(PROP, spec["seed"], spec["shard"], index)
        fc = gen.FluxCase(rng, modes=gen.MODES + (['Pneutral'] if rng.random() < 0.03 else []))
        n2 = rng.randint(-10, 10)
        k = gen.loguniform(rng, 1e-3, 1e3)
        case = dict(fc.describe(), index=index, pow2=n2, k=k)
        status, j, taps = call(fc)
        rep.count("calls_" + status)
        iterated = fc.mode != "V"
        rep.case(case, nontrivial=(status == "ok" and iterated), cls=f"{fc.model}-{fc.mode}" + ("-membrane" if fc.from_membrane else ""))
        if status != "ok":
            if status == "raised":
                rep.count("raised_" + type(j).__name__)
            continue
        try:
            _judge(rep, case, fc, j, taps, n2, k, Permeance)
            _other_model_same_object(rep, case, fc)
            if not fc.from_membrane and index % 8 == 0:
                _explicit_units(rep, case, fc, rng)
            if index % 8 == 1:
                _one_sided(rep, case, fc, rng, Permeance)
        except Exception as e:
            rep.harness_error(f"C02 judge: {e!r}", e)


def _explicit_units(rep, case, fc, rng):
    """explicit permeances handed over in SI or GPU.  The pinned library uses their bare numbers (the unit label of an explicit
    permeance is ignored); a library that converts them properly is just as acceptable.  The law must hold for BOTH components
    under ONE of the two readings - anything else (one component converted with the other's molar mass, ...) is a violation."""
    import copy

    u = rng.choice(["SI", "GPU"])
    p1k, p2k = fc.p1.value, fc.p2.value
    q1 = gen.permeance_in_units(p1k, u, fc.mix.first_component)
    q2 = gen.permeance_in_units(p2k, u, fc.mix.second_component)
    st, j, taps = call(fc, q1, q2)
    if st != "ok" or not taps or not all(math.isfinite(v) for v in j):
        rep.count("explicit_units_call_" + st)
        return
    ystar = taps[-1][0].p
    fits = {}
    for reading, (a, b) in (("bare numbers", (q1.value, q2.value)), ("converted to kg/(m2 h kPa)", (p1k, p2k))):
        ok = False
        for basis in (("weight", "molar") if fc.pp is not None else ("weight",)):
            ref, pf, perm = ref_fluxes(fc, ystar, a, b, basis)
            ok = ok or all(abs(j[i] - float(ref[i])) <= 1e-9 * (a, b)[i] * max(abs(float(pf[i])), abs(float(perm[i]))) for i in (0, 1))
        fits[reading] = ok
    rep.require("explicit permeances in SI / GPU: the law holds for both components under one reading of the unit", any(fits.values()),
                dict(case, explicit_units=u, values=[q1.value, q2.value]), {"fluxes": j, "ystar": ystar, "fits": fits})
    for r, ok in fits.items():
        if ok:
            rep.count("explicit_units_reading: " + r)


def _one_sided(rep, case, fc, rng, Permeance):
    """only ONE of the two permeances is stated.  The pinned library then takes both from the membrane (the stated one is
    discarded); keeping the stated one and taking the other from the membrane is just as acceptable.  The missing one must come
    from the membrane's data for THAT component, and the law must hold for both components."""
    which = rng.choice([0, 1])
    comps = (fc.mix.first_component, fc.mix.second_component)
    try:
        mem = [refmodel_kg(fc.membrane.get_permeance(fc.t_feed, c), c) for c in comps]
    except Exception:
        rep.count("one_sided_membrane_lookup_failed")
        return
    stated = mem[which] * rng.choice([0.25, 3.0])
    kw = fc.kwargs(explicit_permeances=False)
    kw["first_component_permeance" if which == 0 else "second_component_permeance"] = Permeance(value=stated)
    try:
        with guards.budget(SOFT_BUDGET), guards.tap() as taps:
            j = fc.pv.calculate_partial_fluxes(**kw)
        j = (float(j[0]), float(j[1]))
        taps = list(taps)
    except (Exception, guards.BudgetExceeded):
        rep.count("one_sided_call_not_ok")
        return
    if not taps or not all(math.isfinite(v) for v in j):
        return
    ystar = taps[-1][0].p
    fits = {}
    for reading, own in (("stated permeance kept", stated), ("both from the membrane", mem[which])):
        pair = [mem[0], mem[1]]
        pair[which] = own
        ok = False
        for basis in (("weight", "molar") if fc.pp is not None else ("weight",)):
            ref, pf, perm = ref_fluxes(fc, ystar, pair[0], pair[1], basis)
            ok = ok or all(abs(j[i] - float(ref[i])) <= 1e-9 * pair[i] * max(abs(float(pf[i])), abs(float(perm[i]))) for i in (0, 1))
        fits[reading] = ok
    rep.require("one permeance stated, the other taken from the membrane: the law holds for both components", any(fits.values()),
                dict(case, stated_component=which, stated_value=stated, membrane_permeances=mem), {"fluxes": j, "ystar": ystar, "fits": fits})
    for r, ok in fits.items():
        if ok:
            rep.count("one_sided_reading: " + r)


def refmodel_kg(permeance, component):
    return gen.refmodel_permeance_kg(permeance, component)


def _other_model_same_object(rep, case, fc):
    """the same object, the same state, the OTHER activity model: the law must hold with that model's thermodynamics
    (a result remembered from the first call would satisfy the first model's law instead).  Uses the tapped y* when the
    inner evaluations were observed and y*-free forms otherwise."""
    import copy

    fc2 = copy.copy(fc)
    fc2.model = "UNIQUAC" if fc.model == "NRTL" else "NRTL"
    st, j, taps = call(fc2)
    if st != "ok" or not all(math.isfinite(v) for v in j):
        rep.count("other_model_call_" + st)
        return
    name = "same object, other activity model: the law holds with THAT model"
    c2 = dict(case, second_model=fc2.model)
    p1, p2 = fc.p1.value, fc.p2.value
    _, pf, _ = ref_fluxes(fc2, 0.5, p1, p2)
    if not all(math.isfinite(float(v)) for v in pf):
        return
    if fc.mode in ("V", "P0"):
        rep.require(name, j[0] == float(p1 * pf[0]) and j[1] == float(p2 * pf[1]), c2, {"fluxes": j, "ref": [float(p1 * pf[0]), float(p2 * pf[1])]})
        return
    if fc.pp is not None:
        s_ = float(pf[0]) + float(pf[1])
        lhs = j[0] / p1 + j[1] / p2
        if not rep.check(name, abs(lhs - (s_ - fc.pp)), 64 * EPS * max(s_, fc.pp), c2, {"identity": "J1/P1+J2/P2 = sum(p_feed) - p", "lhs": lhs, "rhs": s_ - fc.pp}):
            return
    if taps:
        ystar = taps[-1][0].p
        ok = False
        detail = {}
        for basis in (("weight", "molar") if fc.pp is not None else ("weight",)):
            ref, pf2, perm = ref_fluxes(fc2, ystar, p1, p2, basis)
            res = [abs(j[i] - float(ref[i])) for i in (0, 1)]
            tol = [64 * EPS * (p1, p2)[i] * max(abs(float(pf2[i])), abs(float(perm[i]))) for i in (0, 1)]
            detail[basis] = {"ref": [float(ref[0]), float(ref[1])], "residual": res}
            ok = ok or (res[0] <= tol[0] and res[1] <= tol[1])
        rep.require(name, ok, c2, dict(detail, fluxes=j, ystar=ystar))
    else:
        rep.count("other_model_inner_evaluations_not_observed")
    yj = j[0] / (j[0] + j[1])
    # y*-free form: only when the inner evaluations were not observed, and only where the composition map has no pole
    # nearby (J1 + J2 without cancellation)
    if not taps and 0 <= yj <= 1 and (abs(j[0]) + abs(j[1])) < 10 * abs(j[0] + j[1]):
        L = lipschitz(fc2, yj, p1, p2, fc.precision)
        if L < 0.9:
            try:
                gy = g_map(fc2, yj, p1, p2)
            except Exception:
                return
            rep.check(name, abs(gy - yj), fc.precision, c2, {"y_J": yj, "g(y_J) with the second model": gy, "L": L})


def _judge(rep, case, fc, j, taps, n2, k, Permeance):
    p1, p2 = fc.p1.value, fc.p2.value
    if not (math.isfinite(j[0]) and math.isfinite(j[1])):
        # overflow of the activity model at very low permeate temperatures: the law holds formally
        # (inf = P*(p_feed - inf)); admissibility of reported states is C18's subject, not C02's
        rep.count("nonfinite_result_not_judged")
        return
    yj = j[0] / (j[0] + j[1])
    if not taps:
        rep.count("helper_not_observed")
        ystar = None
    else:
        yc = taps[-1][0]
        ystar = getattr(yc, "p", None)
    # (c) no permeate condition / zero pressure: exactly P * p_feed
    if fc.mode in ("V", "P0"):
        ref, pf, _ = ref_fluxes(fc, 0.5, p1, p2)
        rep.require("vacuum / p=0: flux = P * p_feed exactly", j[0] == float(p1 * pf[0]) and j[1] == float(p2 * pf[1]), case,
                    {"fluxes": j, "ref": [float(p1 * pf[0]), float(p2 * pf[1])]})
    # (a) solution-diffusion law at y*
    if ystar is not None:
        ok_any = False
        detail = {}
        for basis in (("weight", "molar") if fc.pp is not None else ("weight",)):
            ref, pf, perm = ref_fluxes(fc, ystar, p1, p2, basis)
            res = [abs(j[i] - float(ref[i])) for i in (0, 1)]
            tol = [64 * EPS * (p1, p2)[i] * max(abs(float(pf[i])), abs(float(perm[i]))) for i in (0, 1)]
            detail[basis] = {"ref": [float(ref[0]), float(ref[1])], "residual": res, "tol": tol}
            if res[0] <= tol[0] and res[1] <= tol[1]:
                ok_any = True
                rep.count("law_holds_in_basis_" + basis)
                o = rep.oracles.setdefault("flux = P*(p_feed - p_perm(y*))", {"checked": 0, "max_ratio": 0.0, "failed": 0})
                for i in (0, 1):
                    if tol[i] > 0:
                        o["max_ratio"] = max(o["max_ratio"], res[i] / tol[i])
                break
        rep.require("flux = P*(p_feed - p_perm(y*))", ok_any, case, dict(detail, fluxes=j, ystar=ystar))
    # (d) pressure identity
    if fc.pp is not None:
        _, pf, _ = ref_fluxes(fc, 0.5, p1, p2)
        s = float(pf[0]) + float(pf[1])
        lhs = j[0] / p1 + j[1] / p2
        rep.check("J1/P1 + J2/P2 = p_feed1 + p_feed2 - p", abs(lhs - (s - fc.pp)), 64 * EPS * max(s, fc.pp), case, {"lhs": lhs, "rhs": s - fc.pp})
    # (b) self-consistency where the map is contractive
    L = None
    if fc.mode not in ("V",):
        anchor = ystar if ystar is not None else yj
        L = lipschitz(fc, anchor, p1, p2, fc.precision)
        if (abs(j[0]) + abs(j[1])) >= 10 * abs(j[0] + j[1]):
            rep.count("composition_map_near_pole_not_judged")  # J1 + J2 nearly cancels: J1/(J1+J2) is ill-conditioned
        elif L < 0.999:
            # the loop leaves with |y_n - y_(n-1)| < precision and returns fluxes at y* = y_n, so
            # |y_J - y*| = |g(y_n) - g(y_(n-1))| <= L * precision < precision for every contractive state, also a
            # slowly converging one (L close to 1); only the y*-free form needs a margin below 1
            rep.count("contractive_cases")
            rep.count("contractive_cases_slow(L>=0.9)" if L >= 0.9 else "contractive_cases_fast(L<0.9)")
            if ystar is not None:
                rep.check("|J1/(J1+J2) - y*| < precision (contractive)", abs(yj - ystar), fc.precision, case,
                          {"y_J": yj, "y*": ystar, "L": L})
            if L < 0.9:
                try:
                    gy = g_map(fc, yj, p1, p2)
                    rep.check("|g(y_J) - y_J| < precision (contractive, y*-free)", abs(gy - yj), fc.precision, case, {"y_J": yj, "g": gy, "L": L})
                except Exception:
                    rep.count("g_map_unavailable")
        else:
            rep.count("non_contractive_cases_not_judged")
    # (e) linear scaling in the permeances
    f2 = 2.0**n2
    st2, j2, taps2 = call(fc, Permeance(value=p1 * f2), Permeance(value=p2 * f2))
    if st2 == "ok":
        rep.require("permeances x 2^n: fluxes x 2^n exactly", j2[0] == j[0] * f2 and j2[1] == j[1] * f2, case,
                    {"fluxes": j, "scaled": j2, "factor": f2})
        if taps and taps2:
            rep.require("permeances x 2^n: permeate composition bit-identical", taps2[-1][0].p == taps[-1][0].p, case,
                        {"y": taps[-1][0].p, "y_scaled": taps2[-1][0].p})
    elif st2 == "raised" and max(abs(j[0]), abs(j[1])) * max(f2, 1.0) > 1e300:
        rep.count("scaled_call_overflowed(fluxes ~1e300 from an overflowing activity model)")
    elif st2 == "slow":
        rep.count("scaled_call_slow")
    else:
        rep.require("permeances x 2^n: same outcome", False, case, {"outcome": st2, "error": repr(j2)})
    st3, j3, _ = call(fc, Permeance(value=p1 * k), Permeance(value=p2 * k))
    if st3 == "ok":
        y3 = j3[0] / (j3[0] + j3[1])
        if fc.mode in ("V", "P0"):
            rep.check("permeances x k: fluxes x k", max(abs(j3[i] - k * j[i]) / abs(k * j[i]) for i in (0, 1) if j[i] != 0) if any(j) else 0.0,
                      8 * EPS, case, {"fluxes": j, "scaled": j3, "k": k})
        elif L is not None and L < 0.5:
            rep.check("permeances x k: permeate composition unchanged (contractive)", abs(y3 - yj), 2 * fc.precision, case, {"y": yj, "y_k": y3, "L": L})
            # fluxes scale with k up to the effect of the 2*precision shift of y on the driving force
    elif st3 == "raised":
        rep.count("scaled_call_raised")


def finalize(agg, tier):
    out = []
    for o in ("flux = P*(p_feed - p_perm(y*))", "|J1/(J1+J2) - y*| < precision (contractive)", "J1/P1 + J2/P2 = p_feed1 + p_feed2 - p",
              "vacuum / p=0: flux = P * p_feed exactly", "permeances x 2^n: fluxes x 2^n exactly"):
        if agg["oracles"].get(o, {}).get("checked", 0) < 100:
            out.append(f"oracle '{o}' evaluated fewer than 100 times (helper tapped: {agg['counters'].get('helper_not_observed', 0)} misses)")
    return out


LEVEL_TEXT = (
    "Exploration: tens of thousands of real calculate_partial_fluxes calls per run over all mixtures, both activity "
    "models, six permeate-mode classes (including the near-equilibrium region) and permeances spanning six decades; the "
    "driving-force evaluations inside each call are tapped, and the returned fluxes are compared with P*(p_feed - "
    "p_perm(y*)) rebuilt from the public thermodynamics at 64 ulp, the self-consistency |y_J - y*| < precision is demanded "
    "wherever the measured local contraction factor is < 0.999, vacuum / p=0 results bitwise, the pressure identity at "
    "64 ulp, power-of-two permeance scalings bitwise; a third of the calls is made positionally in the released parameter "
    "order, and a burst of concurrent calls on one shared object must reproduce the serial values. Held means no oracle failed on this run's executions."
)
LEVEL_NOTE = "Trusted: the library's get_partial_pressures (checked by C04), the measured contraction factor (finite difference of the reference map); calls that raise or exceed 20000 evaluations are counted, not judged."
TECHNIQUE = "runtime monitoring: tapped inner evaluations + reference recomputation and metamorphic (scaling) twins over seeded executions of the real flux solver"
