"""C20 - modelling calls are pure: no hidden state, arguments untouched, repeatable."""
import json
import os
import shutil
import subprocess
import sys
import tempfile

from .. import bootstrap, fingerprint, gen, guards, proc

PROP = "C20"
LEVEL = "exploration"
RULE = (
    "case = one call history of length 2..12 (thorough: several per shard) over ONE shared set of argument objects "
    "(membrane, mixture, curve set, 3 conditions objects, measurements, compositions) drawn from: flux solver, permeate-"
    "composition and separation-factor helpers, ideal curve + all its metric properties (incl. the lazily assigning "
    "get_permeances), ideal and non-ideal process models (+ metrics, + save to a temp dir), non-ideal curve, fit / "
    "find_best_fit with and without zero points, measurement extraction, membrane queries. After every call NaN-stable deep "
    "fingerprints of every shared argument and of every built-in Mixtures.* / Components.* object are compared with "
    "those taken before the history; the numeric result of every call (float.hex dump) is compared with the result of the "
    "same call executed as the only call in a FRESH interpreter (subprocess, different hash seed) on objects rebuilt from "
    "the same seed; one call of each history is repeated at the end. non-trivial = history with >= 2 calls; distinct = "
    "distinct histories"
)
ASSUMPTIONS = [
    "single-threaded BLAS and identical binaries in both processes (OMP_NUM_THREADS=1)",
    "time stamps in comments are excluded from the comparison",
    "building the shared objects calls library constructors identically in both processes; only the history differs",
]
SHARD_TIMEOUT = {"quick": 2400, "thorough": 20000}
OPS = ["flux", "permeate_composition", "separation_factor", "ideal_curve", "ideal_iso", "ideal_noniso", "nonideal_curve",
       "nonideal_iso", "nonideal_noniso", "fit", "fit_zero", "find_best_fit", "find_best_fit_zero", "measurements", "membrane", "ideal_iso_save",
       "driving_force"]


def shards(tier, seed):
    n = {"quick": 2, "thorough": 14}[tier]
    return [{"n": n} for _ in range(16)]


# ------------------------------------------------------------------------------------------------ the shared world
class World:
    def __init__(self, key):
        import random

        from pyvaporation.conditions import Conditions
        from pyvaporation.optimizer.optimizer import Measurement, Measurements
        from pyvaporation.pervaporation import Pervaporation

        rng = random.Random("world:" + key)
        self.mix, self.mdesc = gen.gen_mixture(rng, 0.3)
        self.membrane = gen.gen_membrane(rng, self.mix)
        self.pv = Pervaporation(self.membrane, self.mix)
        self.curve_set, self.cs_desc = gen.gen_curve_set(rng, self.mix, n_curves=rng.choice([1, 2]), n_points=5)
        self.comps = [gen.gen_composition(rng, self.mix, edge=0.05) for _ in range(4)]
        self.t = rng.uniform(300, 360)
        self.precision = gen.loguniform(rng, 1e-6, 1e-3)
        self.conds = []
        for mode in ("V", "T", "P"):
            tp = rng.uniform(200, self.t - 20) if mode == "T" else None
            pp = rng.uniform(0, 0.3) if mode == "P" else None
            self.conds.append(Conditions(membrane_area=rng.uniform(0.01, 1.0), initial_feed_temperature=self.t, initial_feed_amount=rng.uniform(5, 50),
                                         initial_feed_composition=rng.choice(self.comps), permeate_temperature=tp, permeate_pressure=pp,
                                         temperature_program=gen.gen_program(rng, self.t, 1.0, ndarray=0.5) if rng.random() < 0.5 else None))
        law, _ = gen.synth_permeance_law(rng)
        self.meas = Measurements(data=[Measurement(x=rng.uniform(0.05, 0.95), t=rng.choice([310.0, 330.0]), p=law(rng.uniform(0.05, 0.95), 320.0)) for _ in range(8)])
        self.init_perm = None
        if rng.random() < 0.5:
            self.init_perm = (gen.permeance_in_units(0.02, rng.choice(gen.UNITS), self.mix.first_component),
                              gen.permeance_in_units(0.004, rng.choice(gen.UNITS), self.mix.second_component))

    def shared(self):
        return {"mixture": self.mix, "membrane": self.membrane, "curve_set": self.curve_set, "compositions": self.comps,
                "conditions": self.conds, "measurements": self.meas, "initial_permeances": self.init_perm}


def builtins_fingerprint():
    from pyvaporation.components import Components
    from pyvaporation.mixtures import Mixtures

    out = {}
    for cls in (Mixtures, Components):
        for k, v in vars(cls).items():
            if not k.startswith("_"):
                out[cls.__name__ + "." + k] = fingerprint.digest(v)
    return out


def history_ops(key):
    import random

    rng = random.Random("ops:" + key)
    n = rng.randint(2, 12)
    ops = []
    for _ in range(n):
        op = rng.choice(OPS)
        ops.append({"op": op, "c": rng.randrange(4), "cond": rng.randrange(3), "steps": rng.randint(1, 6), "dt": gen.loguniform(rng, 1e-4, 1e-2),
                    "n": rng.randint(0, 1), "m": rng.randint(0, 1), "idx": rng.randrange(2),
                    # nearby-but-different temperatures across the calls of one history (caches keyed too coarsely show up)
                    "toff": rng.choice([0.0, 0.0, 0.004, 0.05, 0.3, 1.0, 7.0]),
                    # the activity model varies from call to call on the same objects
                    "model": rng.choice(["NRTL", "UNIQUAC"])})
    if rng.random() < 0.25:
        # a call that runs into the library's iteration bound and fails, then the driving-force routine directly and an ordinary call
        k = rng.randrange(len(ops))
        # (the direct call is about ANOTHER feed state than the failed one)
        tail = [dict(ops[k], op="flux_capped"), dict(ops[k], op="driving_force", c=(ops[k]["c"] + 1) % 4, toff=ops[k]["toff"] + 3.0), dict(ops[k], op="flux")]
        ops = ops[: k + 1] + tail + ops[k + 1:]
    return ops


def dump_model(m):
    d = proc.model_fingerprint(m)
    if m.permeance_fits is not None:
        d["fits"] = [fingerprint.deep((f.n, f.m, float(f.alpha), [float(v) for v in f.a], [float(v) for v in f.b])) for f in m.permeance_fits]
    return d


def dump_curve(c):
    return {"x": [(x.p, x.type) for x in c.feed_compositions], "j": [[float(v) for v in f] for f in c.partial_fluxes],
            "p": [[q.value, q.units] for p in c.permeances for q in p]}


def _plot_is_read_only(w, obj, dump):
    """the object's own plot() on each of its series must leave the object as it was"""
    before = fingerprint.deep(dump(obj))
    proc.plot_everything(obj)
    after = fingerprint.deep(dump(obj))
    if before != after:
        w.plot_changed = fingerprint.first_difference(before, after) or "changed"


def execute(w, o, tmpdir):
    """run one op on the world; -> json-able result dump (floats as hex through fingerprint.deep)"""
    from pyvaporation.optimizer import Measurements, find_best_fit, fit

    op = o["op"]
    x = w.comps[o["c"]]
    cond = w.conds[o["cond"]]
    tp, pp = cond.permeate_temperature, cond.permeate_pressure
    nid = dict(n_first=o["n"], n_second=o["n"], m_first=o["m"], m_second=o["m"])
    T = w.t + o["toff"]
    if op == "flux_capped":
        # a flux calculation that cannot converge (requested precision 0): ends with the library's error at its iteration bound
        return w.pv.calculate_partial_fluxes(T, x, 0.0, tp, pp, calculation_type=o["model"])
    if op == "driving_force":
        # the public driving-force routine called directly
        from pyvaporation.mixtures import Composition

        c1, c2 = w.mix.first_component, w.mix.second_component
        y = Composition(p=0.1 + 0.2 * o["c"], type="weight")
        j = w.pv.get_partial_fluxes_from_permeate_composition(w.membrane.get_permeance(T, c1), w.membrane.get_permeance(T, c2), y, x, T, tp, pp, o["model"])
        return (float(j[0]), float(j[1]))
    if op == "flux":
        r = w.pv.calculate_partial_fluxes(T, x, w.precision, tp, pp, calculation_type=o["model"])
        w.raw = [r]
        return (float(r[0]), float(r[1]))
    if op == "permeate_composition":
        y = w.pv.calculate_permeate_composition(w.t, x, w.precision, tp, pp, o["model"])
        w.raw = [y]
        return y.p
    if op == "separation_factor":
        return w.pv.calculate_separation_factor(w.t, x, tp, pp, w.precision, o["model"])
    if op == "ideal_curve":
        c = w.pv.ideal_diffusion_curve(T, w.comps, tp, pp, w.precision, o["model"])
        w.raw = [c]
        _plot_is_read_only(w, c, dump_curve)
        return [dump_curve(c), c.get_separation_factor, c.get_psi, c.get_selectivity, [[q.value for q in p] for p in c.get_permeances],
                [y.p for y in c.permeate_composition]]
    if op in ("ideal_iso", "ideal_noniso", "ideal_iso_save"):
        kind = "ideal_non_isothermal_process" if op == "ideal_noniso" else "ideal_isothermal_process"
        m = getattr(w.pv, kind)(conditions=cond, number_of_steps=o["steps"], delta_hours=o["dt"], precision=w.precision, calculation_type=o["model"])
        w.raw = [m]
        _plot_is_read_only(w, m, dump_model)
        out = [dump_model(m), m.get_separation_factor, m.get_psi, m.get_selectivity]
        if op == "ideal_iso_save" and w.mix.name in gen.BUILTIN_MIXTURES:
            d = tempfile.mkdtemp(dir=tmpdir)
            m.save(membrane_path=d, is_safe=True)
            out.append(sorted(os.listdir(os.path.join(d, "results", os.listdir(os.path.join(d, "results"))[0]))))
        return out
    if op == "nonideal_curve":
        c = w.pv.non_ideal_diffusion_curve(diffusion_curve_set=w.curve_set, feed_temperature=w.t, initial_feed_composition=x, delta_composition=0.01,
                                           number_of_steps=o["steps"], permeate_temperature=tp, permeate_pressure=pp, initial_permeances=w.init_perm,
                                           precision=w.precision, calculation_type=o["model"], include_zero=bool(o["idx"]), **nid)
        w.raw = [c]
        return dump_curve(c)
    if op in ("nonideal_iso", "nonideal_noniso"):
        kind = "non_ideal_isothermal_process" if op == "nonideal_iso" else "non_ideal_non_isothermal_process"
        m = getattr(w.pv, kind)(conditions=cond, diffusion_curve_set=w.curve_set, number_of_steps=o["steps"], delta_hours=o["dt"], precision=w.precision,
                                calculation_type=o["model"], initial_permeances=w.init_perm, include_zero=bool(o["idx"]), **nid)
        w.raw = [m] + list(m.permeance_fits or [])
        return [dump_model(m), m.get_psi]
    if op in ("fit", "fit_zero"):
        f = fit(w.meas, n=o["n"], m=o["m"], include_zero=op == "fit_zero", component_index=o["idx"])
        w.raw = [f]
        return (f.n, f.m, float(f.alpha), [float(v) for v in f.a], [float(v) for v in f.b])
    if op in ("find_best_fit", "find_best_fit_zero"):
        f = find_best_fit(w.meas, n=o["n"], m=o["m"], include_zero=op == "find_best_fit_zero", component_index=o["idx"])
        w.raw = [f]
        return (f.n, f.m, float(f.alpha), [float(v) for v in f.a], [float(v) for v in f.b])
    if op == "measurements":
        a, b = Measurements.from_diffusion_curves_first(w.curve_set), Measurements.from_diffusion_curves_second(w.curve_set)
        return [[(m.x, m.t, m.p) for m in a.data], [(m.x, m.t, m.p) for m in b.data]]
    if op == "membrane":
        c1, c2 = w.mix.first_component, w.mix.second_component
        t = T
        return [w.membrane.get_permeance(t, c1).value, w.membrane.get_permeance(t, c2).value, w.membrane.get_ideal_selectivity(t, c1, c2),
                w.membrane.get_estimated_pure_component_flux(t, c1, tp, pp)]
    raise KeyError(op)


def _protected(w):
    """ids of everything reachable from the shared argument objects and the built-ins (never touched by `spoil`), and the
    numpy arrays among them"""
    import attr
    import numpy
    from pyvaporation.components import Components
    from pyvaporation.mixtures import Mixtures

    ids, arrays = set(), []
    stack = list(w.shared().values()) + [w.pv] + [v for cls in (Mixtures, Components) for k, v in vars(cls).items() if not k.startswith("_")]
    while stack:
        obj = stack.pop()
        if id(obj) in ids or obj is None or isinstance(obj, (int, float, str, bool)):
            continue
        ids.add(id(obj))
        if isinstance(obj, numpy.ndarray):
            arrays.append(obj)
        elif isinstance(obj, (list, tuple, set)):
            stack.extend(obj)
        elif isinstance(obj, dict):
            stack.extend(obj.values())
        elif attr.has(type(obj)):
            stack.extend(getattr(obj, f.name, None) for f in attr.fields(type(obj)))
        elif hasattr(obj, "__dict__"):
            stack.extend(vars(obj).values())
    return ids, arrays


def spoil(raw, w):
    """overwrite the containers of returned objects in place (first level of lists / arrays / attrs fields); objects that are
    (or share memory with) the caller's shared arguments are left alone.  -> number of containers spoilt"""
    import attr
    import numpy

    ids, arrays = _protected(w)
    n = 0

    def one(obj):
        nonlocal n
        if obj is None or id(obj) in ids:
            return
        if isinstance(obj, numpy.ndarray):
            if obj.size and obj.flags.writeable and not any(numpy.shares_memory(obj, a) for a in arrays):
                obj[...] = -12345.678 if obj.dtype.kind == "f" else obj
                n += 1
        elif isinstance(obj, list):
            if obj:
                obj[0] = None
                obj.append(None)
                n += 1

    for r in raw:
        if r is None or id(r) in ids:
            continue
        one(r)
        if attr.has(type(r)):
            for f in attr.fields(type(r)):
                one(getattr(r, f.name, None))
            for name in ("alpha", "p"):
                if hasattr(r, name) and isinstance(getattr(r, name), float):
                    try:
                        setattr(r, name, 0.123456789)
                        n += 1
                    except Exception:
                        pass
    return n


def run_op(w, o, tmpdir):
    """-> ('ok', deep dump) | ('raised', type name) | ('slow', None)"""
    try:
        w.raw = []
        with guards.budget(guards.HARD_EVALS if o["op"] == "flux_capped" else proc.SOFT_BUDGET):  # the capped call must reach the library's own bound
            r = execute(w, o, tmpdir)
        d = fingerprint.deep(r)
        # the caller owns what was returned to it: it recycles / overwrites those objects; whatever the library does later
        # must not depend on them (a memo that hands the same object out again would now hand out the spoilt one)
        try:
            w.spoilt = getattr(w, "spoilt", 0) + spoil(w.raw, w)
        except Exception:
            pass
        return "ok", d
    except guards.BudgetExceeded:
        # the harness aborted the call from outside (like a KeyboardInterrupt): whatever the interrupted call left behind on
        # the Pervaporation object is not the library's doing - continue with a new object
        from pyvaporation.pervaporation import Pervaporation

        w.pv = Pervaporation(w.membrane, w.mix)
        return "slow", None
    except Exception as e:
        return "raised", type(e).__name__


def fresh(key, k):
    """the k-th call of history `key` as the only call in this interpreter"""
    w = World(key)
    o = history_ops(key)[k]
    tmp = tempfile.mkdtemp(prefix="pvmon_c20f_")
    try:
        st, d = run_op(w, o, tmp)
    finally:
        shutil.rmtree(tmp, ignore_errors=True)
    return {"status": st, "dump": repr(d)}


VLE_PLANS = {1: ["H2O_iPOH", "MeOH_Toluene", "MeOH_DMC"], 5: ["H2O_MeOH", "EtOH_ETBE", "H2O_AceticAcid"], 9: ["H2O_iPOH", "MeOH_MTBE", "MeOH_Toluene"],
             13: ["H2O_MeOH", "MeOH_DMC", "MeOH_Toluene"]}


def vle_fit(name):
    """default-method UNIQUAC fit of one bundled VLE data set -> deep dump of the parameters"""
    from pyvaporation.mixtures import VLEPoints, fit_vle

    data = VLEPoints.from_csv(bootstrap.repo_root() / "tests" / "VLE_data" / "binary" / f"{name}.csv")
    p = fit_vle(data)
    return fingerprint.deep([float(v) for v in (p.alpha_12, p.alpha_21, p.beta_12, p.beta_21, p.z)])


def vle_history(rep, spec):
    """fits are modelling calls as well: a history of default-method VLE fits (a large data set first, smaller ones after it) -
    every result must equal that of the same fit made first in a fresh interpreter"""
    names = VLE_PLANS.get(spec["shard"])
    if not names:
        return
    case = {"index": "vle-history", "shard": spec["shard"], "history": names}
    rep.case(case, cls="history|vle-fits")
    for k, name in enumerate(names):
        try:
            mine = repr(vle_fit(name))
        except Exception as e:
            mine = "raised " + type(e).__name__
        rep.count("op_fit_vle")
        env = bootstrap.worker_env()
        try:
            cp = subprocess.run([bootstrap.PYTHON, "-m", "pvmon.monitors.c20", "fresh-vle", name, "0"], env=env, cwd=str(bootstrap.VERIF),
                                capture_output=True, text=True, timeout=1200)
            out = json.loads(cp.stdout.strip().splitlines()[-1])["dump"]
        except Exception as e:
            rep.mark_inconclusive(f"fresh interpreter VLE fit failed: {e!r}")
            continue
        rep.count("fresh_interpreter_runs")
        rep.require("result of a call in a history = result of the same call made first in a fresh interpreter (bitwise)", mine == out, dict(case, call=k, data_set=name),
                    {"in_history": mine[:300], "fresh": out[:300], "preceding_calls": ["fit_vle(" + n + ")" for n in names[:k]]})


def run_shard(spec, rep):
    only = spec.get("only")
    base_builtins = builtins_fingerprint()
    if only is None or only == "vle-history":
        try:
            vle_history(rep, spec)
        except Exception as e:
            rep.harness_error(f"C20 vle history: {e!r}", e)
    for index in range(spec["n"]):
        if only is not None and index != only:
            continue
        key = f"{spec['seed']}:{spec['shard']}:{index}"
        tmp = tempfile.mkdtemp(prefix="pvmon_c20_")
        try:
            one_history(rep, spec, index, key, tmp, base_builtins)
        except Exception as e:
            rep.harness_error(f"C20 history {key}: {e!r}", e)
        finally:
            shutil.rmtree(tmp, ignore_errors=True)


def one_history(rep, spec, index, key, tmp, base_builtins):
    w = World(key)
    ops = history_ops(key)
    case = {"index": index, "key": key, "mixture": w.mdesc, "history": [o["op"] for o in ops]}
    rep.case(case, nontrivial=len(ops) >= 2, cls=f"history|len={len(ops)}")
    before = {k: fingerprint.deep(v) for k, v in w.shared().items()}
    results = []
    # a second, unrelated set of objects is used in between (another study in the same session): what it does must not
    # show in the answers for the first one (they are compared with a fresh interpreter that never saw the second set)
    other, other_ops = World(key + ":other"), history_ops(key + ":other")
    for k, o in enumerate(ops):
        if k % 2 == 1:
            st_o, _ = run_op(other, other_ops[k % len(other_ops)], tmp)
            rep.count("calls_on_unrelated_objects_in_between_" + st_o)
        st, d = run_op(w, o, tmp)
        results.append((st, repr(d)))
        rep.count("calls_" + st)
        rep.count("op_" + o["op"])
        ck = dict(case, call=k, op=o)
        for name, obj in w.shared().items():
            diff = fingerprint.first_difference(before[name], fingerprint.deep(obj))
            rep.require("shared argument objects are deeply unchanged after every call", diff is None, ck, {"object": name, "difference": diff})
        rep.require("plotting a returned model / curve leaves it unchanged", getattr(w, "plot_changed", None) is None, ck, {"difference": getattr(w, "plot_changed", None)})
        w.plot_changed = None
        now = builtins_fingerprint()
        changed = [n for n in base_builtins if now.get(n) != base_builtins[n]]
        rep.require("built-in components and mixtures are never modified", not changed, ck, {"changed": changed})
    rep.count("returned_containers_spoilt_by_the_caller", getattr(w, "spoilt", 0))
    # repeat one call at the end of the history
    k = len(ops) // 2
    st, d = run_op(w, ops[k], tmp)
    rep.require("repeating a call later in the history gives the same bits", (st, repr(d)) == results[k] or st == "slow" or results[k][0] == "slow", dict(case, call=k, op=ops[k]),
                {"first": results[k][1][:300], "again": repr(d)[:300]})
    # a worn object against a brand-new one in the same interpreter: after an endurance phase (one shared Pervaporation
    # object doing > 320000 driving-force evaluations - well over 100000 solver iterations - in total; 4 of the 16 shards) the same calls must give the same bits on both
    if index == 0 and spec["shard"] % 4 == 0:
        from pyvaporation.pervaporation import Pervaporation

        start = guards.S.total_evals
        endurance_op = {"op": "ideal_noniso", "c": 0, "cond": 1, "steps": 60, "dt": 1e-3, "n": 0, "m": 0, "idx": 0, "toff": 0.0, "model": "NRTL"}
        rounds = 0
        while guards.S.total_evals - start < 320000 and rounds < 12000:
            st_e, _ = run_op(w, endurance_op, tmp)
            rounds += 1
            if st_e != "ok" and rounds > 3 and guards.S.total_evals - start < 50 * rounds:
                break
        rep.count("endurance_rounds", rounds)
        rep.count("endurance_evaluations", guards.S.total_evals - start)
        probe = [o for o in ops if o["op"] in ("flux", "ideal_iso", "ideal_noniso", "ideal_curve", "separation_factor", "permeate_composition")][:3] or [endurance_op]
        for o in probe:
            worn = run_op(w, o, tmp)
            pv_saved = w.pv
            w.pv = Pervaporation(w.membrane, w.mix)
            try:
                fresh_obj = run_op(w, o, tmp)
            finally:
                w.pv = pv_saved
            if "slow" not in (worn[0], fresh_obj[0]):
                rep.require("a long-used Pervaporation object answers like a brand-new one (bitwise)", (worn[0], repr(worn[1])) == (fresh_obj[0], repr(fresh_obj[1])),
                            dict(case, op=o, endurance_rounds=rounds), {"worn": [worn[0], repr(worn[1])[:200]], "fresh_object": [fresh_obj[0], repr(fresh_obj[1])[:200]]})
    # every call against a fresh interpreter
    for k, o in enumerate(ops):
        if results[k][0] == "slow":
            continue
        env = bootstrap.worker_env()
        env["PYTHONHASHSEED"] = str(1 + (hash(key) + k) % 1000)
        try:
            cp = subprocess.run([bootstrap.PYTHON, "-m", "pvmon.monitors.c20", "fresh", key, str(k)], env=env, cwd=str(bootstrap.VERIF),
                                capture_output=True, text=True, timeout=900)
            out = json.loads(cp.stdout.strip().splitlines()[-1])
        except Exception as e:
            rep.mark_inconclusive(f"fresh interpreter run failed: {e!r}")
            continue
        rep.count("fresh_interpreter_runs")
        ck = dict(case, call=k, op=o)
        if out["status"] == "slow":
            continue
        same = (out["status"], out["dump"]) == results[k]
        detail = None
        if not same:
            a, b = results[k][1], out["dump"]
            pos = next((i for i, (u, v) in enumerate(zip(a, b)) if u != v), min(len(a), len(b)))
            detail = {"in_history": [results[k][0], a[max(0, pos - 80):pos + 80]], "fresh": [out["status"], b[max(0, pos - 80):pos + 80]], "preceding_calls": [q["op"] for q in ops[:k]]}
        rep.require("result of a call in a history = result of the same call made first in a fresh interpreter (bitwise)", same, ck, detail)


def finalize(agg, tier):
    out = []
    if agg["counters"].get("fresh_interpreter_runs", 0) < 30:
        out.append("fewer than 30 fresh-interpreter comparisons")
    missing = [o for o in OPS if agg["counters"].get("op_" + o, 0) == 0]
    if len(missing) > 4:
        out.append(f"entry points never called in any history: {missing}")
    return out


LEVEL_TEXT = (
    "Exploration over call histories: random sequences of modelling calls share one set of argument objects; after every "
    "call deep (NaN-stable, bit-exact) fingerprints of all shared arguments and of every built-in component and mixture are "
    "compared with the initial ones, one call is repeated later in the history, and every call's result is compared bitwise "
    "with the same call executed as the only call of a fresh interpreter with a different hash seed; after every call the "
    "harness overwrites the containers of the returned objects (the caller owns them), so an object handed out twice is seen; returned models and curves are "
    "plotted (must stay unchanged), calls on an unrelated second set of objects are made in between, and four shards run a history of default-method "
    "VLE fits (a large data set first) against fresh interpreters. Held means no "
    "fingerprint changed and no result depended on the preceding history in this run."
)
LEVEL_NOTE = "Trusted: bit-reproducibility of numpy/scipy across processes on this machine with single-threaded BLAS; world construction is identical in both processes."
TECHNIQUE = "runtime monitoring: deep-fingerprint purity monitor after every call + offline comparison of recorded results with fresh-interpreter executions"


if __name__ == "__main__" and len(sys.argv) >= 4 and sys.argv[1] == "fresh":
    bootstrap.import_repo()
    guards.install_budget()
    print(json.dumps(fresh(sys.argv[2], int(sys.argv[3]))))
if __name__ == "__main__" and len(sys.argv) >= 4 and sys.argv[1] == "fresh-vle":
    bootstrap.import_repo()
    try:
        print(json.dumps({"dump": repr(vle_fit(sys.argv[2]))}))
    except Exception as e:
        print(json.dumps({"dump": "raised " + type(e).__name__}))
