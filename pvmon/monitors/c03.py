"""C03 - heat balance: evaporation heat, self-cooling and temperature programme are exact."""
import math

from .. import gen, proc

PROP = "C03"
LEVEL = "exploration"
RULE = (
    "case = one call of one of the 4 real process models (C01's workload: all mixtures, both activity models, all "
    "permeate modes, self-cooling or polynomial / exponential / logarithmic programme, admissible step sizes) followed "
    "by a 1-step run of the sibling (isothermal <-> non-isothermal) model from the same conditions. Every reported step "
    "is recomputed from the public Component methods and the reported series. non-trivial = the run returned; "
    "distinct = distinct inputs"
)
ASSUMPTIONS = [
    "latent heat per kg = Component.get_vaporisation_heat(T)/M*1000, specific heat per kg = get_specific_heat(T)/M (C13 owns their consistency)",
    "non-ideal iso/non-iso pairs are compared only when step-0 permeances are bit-identical by construction (initial permeances supplied or multi-curve set)",
]
EPS = 2.0**-52
SHARD_TIMEOUT = {"quick": 1500, "thorough": 14000}


def shards(tier, seed):
    ni, nn = {"quick": (50, 8), "thorough": (2500, 200)}[tier]
    return [{"n_ideal": ni, "n_nonideal": nn} for _ in range(16)]


def heat_balance(rep, case, sc, model):
    c1, c2 = sc.mix.first_component, sc.mix.second_component
    m1, m2 = c1.molecular_weight, c2.molecular_weight
    n = len(model.time)
    prog = sc.program
    for k in range(n):
        t = model.feed_temperature[k]
        j1, j2 = float(model.partial_fluxes[k][0]), float(model.partial_fluxes[k][1])
        d1, d2 = j1 * sc.area * sc.dt, j2 * sc.area * sc.dt
        h1 = c1.get_vaporisation_heat(t) / m1 * 1000
        h2 = c2.get_vaporisation_heat(t) / m2 * 1000
        q = model.feed_evaporation_heat[k]
        c = dict(case, step=k)
        rep.check("evaporation heat = sum of permeated mass x own latent heat", abs(q - (h1 * d1 + h2 * d2)),
                  1e-12 * (abs(h1 * d1) + abs(h2 * d2)), c, {"reported": q, "ref": h1 * d1 + h2 * d2})
        qc = model.permeate_condensation_heat[k]
        rep.require("condensation heat reported iff a permeate temperature is specified",
                    (qc is not None and not (isinstance(qc, float) and math.isnan(qc))) == (sc.tp is not None), c,
                    {"condensation": qc, "Tp": sc.tp})
        if sc.isothermal:
            rep.require("isothermal model: temperature never changes (bitwise)", t == sc.t0, c, {"T_k": t, "T0": sc.t0})
        elif k < n - 1:
            tn = model.feed_temperature[k + 1]
            if prog is None:
                w = model.feed_compositions[k].p
                cp = w * c1.get_specific_heat(t) / m1 + (1 - w) * c2.get_specific_heat(t) / m2
                drop = q / (cp * model.feed_mass[k])

                def terms(comp):
                    h = comp.heat_capacity_constants
                    return abs(h.a) + abs(h.b) * abs(t) + abs(h.c) * t * t + abs(h.d) * abs(t) ** 3

                # cp is a sum of signed polynomial terms (far below the fitted range they nearly cancel): its rounding error is
                # a few ulp of the largest TERM, which the division passes on to the temperature drop
                amplification = (w * terms(c1) / m1 + (1 - w) * terms(c2) / m2) / abs(cp) if cp else float("inf")
                rep.check("self-cooling: T_k+1 = T_k - Q_k/(m_k cp_k)", abs(tn - (t - drop)), 64 * EPS * (max(abs(t), abs(drop)) + abs(drop) * amplification), c,
                          {"T_k+1": tn, "ref": t - drop})
            else:
                refs = (prog.program(model.time[k + 1]), prog.program(model.time[k] + sc.dt))
                rep.check("programme: T_k+1 = programme(time_k+1)", min(abs(tn - float(r)) for r in refs), 4 * EPS * abs(tn), c,
                          {"T_k+1": tn, "ref": [float(r) for r in refs]})


def sibling_pair(rep, case, sc, model):
    """isothermal and non-isothermal model from the same conditions agree at step 0"""
    sib = sc.kind.replace("non_isothermal", "ISO") if not sc.isothermal else sc.kind.replace("isothermal", "non_isothermal")
    sib = sib.replace("ISO", "isothermal")
    if not sc.ideal:
        single = len(sc.curve_set.diffusion_curves) == 1
        if single and sc.initial_permeances is None:
            rep.count("nonideal_pair_skipped(step-0 permeance not bit-identical by construction)")
            return
    kw = sc.call_kwargs(n=1)
    from .. import guards

    try:
        with guards.budget(proc.SOFT_BUDGET):
            other = getattr(sc.pv, sib)(**kw)
    except guards.BudgetExceeded:
        rep.count("pair_slow")
        return
    except Exception as e:
        rep.require("sibling model returns from the same conditions", False, case, {"sibling": sib, "error": repr(e)})
        return
    a = (float(model.partial_fluxes[0][0]), float(model.partial_fluxes[0][1]), model.feed_evaporation_heat[0], model.permeate_condensation_heat[0])
    b = (float(other.partial_fluxes[0][0]), float(other.partial_fluxes[0][1]), other.feed_evaporation_heat[0], other.permeate_condensation_heat[0])
    rep.require("iso and non-iso model agree at step 0 (fluxes, evaporation and condensation heat, bitwise)", a == b, case,
                {"this": a, "sibling": b, "sibling_kind": sib})


def run_shard(spec, rep):
    from .c01 import cases

    only = spec.get("only")
    for index, kinds in cases(spec):
        if only is not None and index != only:
            continue
        if rep.n_violations >= 20:
            break
        rng = gen.case_rng(PROP, spec["seed"], spec["shard"], index)
        sc = proc.Scenario(rng, kinds=kinds)
        case = dict(sc.describe(), index=index)
        status, model = sc.run()
        rep.count("runs_" + status)
        rep.case(case, nontrivial=status == "ok", cls=sc.cls())
        if status != "ok":
            continue
        try:
            if len(model.time) != sc.n or len(model.feed_evaporation_heat) != sc.n or len(model.feed_temperature) != sc.n:
                rep.count("series_length_wrong(C01's subject)")
                continue
            heat_balance(rep, case, sc, model)
            sibling_pair(rep, case, sc, model)
        except Exception as e:
            rep.harness_error(f"C03 judge {e!r}", e)


def finalize(agg, tier):
    out = []
    need = ["evaporation heat = sum of permeated mass x own latent heat", "self-cooling: T_k+1 = T_k - Q_k/(m_k cp_k)",
            "programme: T_k+1 = programme(time_k+1)", "isothermal model: temperature never changes (bitwise)",
            "iso and non-iso model agree at step 0 (fluxes, evaporation and condensation heat, bitwise)"]
    for o in need:
        if agg["oracles"].get(o, {}).get("checked", 0) < 30:
            out.append(f"oracle '{o}' evaluated fewer than 30 times")
    for p in ("prog-polynomial", "prog-exponential", "prog-logarithmic", "selfcool"):
        if not any(k.endswith(p) for k in agg["classes"]):
            out.append(f"temperature mode {p} not exercised")
    return out


LEVEL_TEXT = (
    "Exploration: every step of hundreds (quick) to tens of thousands (thorough) of real process runs is recomputed from "
    "the public Component methods: evaporation heat at 1e-12 relative, self-cooling temperature at 64 ulp, programme "
    "temperatures at 4 ulp, isothermal temperatures bitwise; each run is paired with a run of its isothermal / "
    "non-isothermal sibling from the same conditions and step 0 must agree bitwise; condensation heat must be present "
    "exactly when a permeate temperature is. Held means no oracle failed on this run's executions."
)
LEVEL_NOTE = "Trusted: Component.get_vaporisation_heat / get_specific_heat (C13). Runs that raise are counted, not judged."
TECHNIQUE = "runtime monitoring: per-step reference recomputation (post-condition) + iso/non-iso twin runs over seeded executions of the real process models"
