"""C05 - non-ideal models follow the fitted permeance functions they return."""
import math

from .. import fingerprint, gen, guards, proc, refmodel

PROP = "C05"
LEVEL = "exploration"
RULE = (
    "case = one call of non_ideal_isothermal_process, non_ideal_non_isothermal_process or non_ideal_diffusion_curve on a "
    "synthetic curve set with genuinely composition- and temperature-dependent permeances: 1 curve (modelling temperature "
    "equal to or different from the curve's) or 2-3 curves, mass or molar abscissae, initial feed as mass or mole "
    "fraction, with / without initial permeances (3 units), all permeate modes, isothermal / self-cooling / programme, "
    "orders 0..2 or (15 % of the cases) the default search for some of them; 15 % of the cases use a membrane, curve set and mixture shipped with the repository (loaded from a copy). "
    "The find_best_fit and calculate_activation_energy calls made INSIDE the model are recorded. "
    "non-trivial = the run returned with >= 2 steps; distinct = distinct inputs"
)
ASSUMPTIONS = [
    "a negative fitted value is reported as permeance 0 (the Permeance clamp), the reference does the same",
    "the isothermal process model's one-step lag of the composition argument is part of the given statement",
]
EPS = 2.0**-52
SHARD_TIMEOUT = {"quick": 2400, "thorough": 20000}

ANCHORS = [('pervaporation/pervaporation.py', 'pervaporation_function_first.b[0] = activation_energy_first / R', 'single-curve Arrhenius rescaling')]


def shards(tier, seed):
    n = {"quick": 16, "thorough": 400}[tier]
    return [{"n": n} for _ in range(16)]


def coeffs(f):
    return fingerprint.deep((f.n, f.m, float(f.alpha), [float(v) for v in f.a], [float(v) for v in f.b]))


def run_shard(spec, rep):
    import shutil
    import tempfile

    only = spec.get("only")
    spec = dict(spec, bundled_dir=tempfile.mkdtemp(prefix="pvmon_c05_"))
    try:
        _run(spec, rep, only)
    finally:
        shutil.rmtree(spec["bundled_dir"], ignore_errors=True)


def _run(spec, rep, only):
    for index in range(spec["n"]):
        if only is not None and index != only:
            continue
        if rep.n_violations >= 10:
            break
        try:
            one_case(rep, spec, index)
        except Exception as e:
            rep.harness_error(f"C05 case {index}: {e!r}", e)


def one_case(rep, spec, index):
    _one_case(rep, spec, index, edit=False)
    rng = gen.case_rng(PROP + "edit", spec["seed"], spec["shard"], index)
    if rng.random() < 0.2:
        # the same scenario, but the curve-set OBJECT is used once, then edited in place (one curve's permeances
        # re-measured: same temperatures, same number of points) and used again: the second run must follow the edited data
        _one_case(rep, spec, index, edit=True)


def _one_case(rep, spec, index, edit):
    import pyvaporation.pervaporation.pervaporation as pvmod
    from pyvaporation.membrane import Membrane
    from pyvaporation.mixtures import Composition
    from pyvaporation.optimizer import Measurements, find_best_fit

    rng = gen.case_rng(PROP, spec["seed"], spec["shard"], index)
    kind = rng.choice(["non_ideal_isothermal_process", "non_ideal_non_isothermal_process", "non_ideal_diffusion_curve"])
    sc = proc.Scenario(rng, kinds=[kind if kind != "non_ideal_diffusion_curve" else "non_ideal_isothermal_process"],
                       nonideal_orders=2 if rng.random() < 0.3 else 1, max_steps=10, default_orders=0.15)
    if rng.random() < 0.06:
        # a large table (several curves of about twenty points, > 50 measurements per component), low orders to bound the cost
        sc.curve_set, sc.cs_desc = gen.gen_curve_set(rng, sc.mix, n_curves=3, n_points=rng.randint(18, 24))
        sc.orders = {k: (None if v is None else min(v, 1)) for k, v in sc.orders.items()}
    bundled = None
    if rng.random() < 0.15 and spec.get("bundled_dir"):
        # real data: a membrane shipped with the repository (loaded from a copy), its own curve set and mixture
        from pyvaporation.pervaporation import Pervaporation

        mems = gen.load_bundled(spec["bundled_dir"])
        if mems:
            mem = rng.choice(mems)
            cs = rng.choice(mem.diffusion_curve_sets)
            sc.membrane, sc.curve_set, sc.mix = mem, cs, cs.diffusion_curves[0].mixture
            sc.mdesc, sc.cs_desc = sc.mix.name, {"bundled": f"{mem.name}/{cs.name}", "curves": len(cs.diffusion_curves)}
            sc.pv = Pervaporation(mem, sc.mix)
            sc.initial_permeances = None if rng.random() < 0.5 else sc.initial_permeances
            if sc.initial_permeances is not None:
                sc.initial_permeances = (gen.permeance_in_units(0.02, "kg/(m2*h*kPa)", sc.mix.first_component),
                                         gen.permeance_in_units(0.0004, "SI", sc.mix.second_component))
            if mem.ideal_experiments is None or rng.random() < 0.5:
                sc.t0 = cs.diffusion_curves[0].feed_temperature  # no activation energies available: model at the curve temperature
            sc.x0 = gen.gen_composition(rng, sc.mix, edge=0.05)
            sc.orders = {k: (None if v is None else min(v, 1)) for k, v in sc.orders.items()}
            sc.conditions.initial_feed_temperature = sc.t0
            sc.conditions.initial_feed_composition = sc.x0
            sc.mode, sc.tp, sc.pp = "V", None, None
            sc.conditions.permeate_temperature = sc.conditions.permeate_pressure = None
            sc.program = sc.conditions.temperature_program = None
            sc.dt = 0.01
            bundled = f"{mem.name}/{cs.name}"
    single = len(sc.curve_set.diffusion_curves) == 1
    tc = sc.curve_set.diffusion_curves[0].feed_temperature
    case = dict(sc.describe(), index=index, kind=kind)
    if edit:
        from pyvaporation.permeance import Permeance

        def call_once():
            try:
                with guards.budget(proc.SOFT_BUDGET):
                    if kind == "non_ideal_diffusion_curve":
                        sc.pv.non_ideal_diffusion_curve(diffusion_curve_set=sc.curve_set, feed_temperature=sc.t0, initial_feed_composition=sc.x0, delta_composition=0.01,
                                                        number_of_steps=1, initial_permeances=sc.initial_permeances, include_zero=sc.include_zero, **sc.orders)
                    else:
                        getattr(sc.pv, kind)(**sc.call_kwargs(n=1))
            except (Exception, guards.BudgetExceeded):
                pass

        call_once()
        curve = rng.choice(sc.curve_set.diffusion_curves)
        f1, f2 = rng.uniform(1.3, 2.5), rng.uniform(0.3, 0.7)
        curve.permeances = [(Permeance(value=p[0].value * f1 * (1 + 0.3 * i), units=p[0].units), Permeance(value=p[1].value * f2, units=p[1].units))
                            for i, p in enumerate(curve.permeances)]
    case = dict(case, curve_set_edited_in_place_after_a_first_use=edit)
    # what the public extractor yields for each component BEFORE the model runs (a model that rewrites the set would
    # otherwise be compared with its own rewrite)
    ref_measurements = (Measurements.from_diffusion_curves_first(sc.curve_set), Measurements.from_diffusion_curves_second(sc.curve_set))
    # recorders
    rec_fit, rec_ea = [], []
    orig_fbf = pvmod.find_best_fit
    orig_ea = Membrane.calculate_activation_energy

    def fbf(*a, **k):
        r = orig_fbf(*a, **k)
        rec_fit.append((a, dict(k), r, coeffs(r)))
        return r

    def ea(self, component):
        r = orig_ea(self, component)
        rec_ea.append((component.name, r))
        return r

    delta = n_pts = None
    if kind == "non_ideal_diffusion_curve":
        n_pts = rng.randint(2, 6)
        w0 = rng.uniform(0.05, 0.5)
        x0 = Composition(p=w0, type="weight")
        if rng.random() < 0.5:
            x0 = gen.to_molar_exact(x0, sc.mix)
        delta = rng.uniform(0.01, 0.4 / n_pts)
        case.update(x0=gen.describe_composition(x0), delta=delta, points=n_pts)

        def call():
            return sc.pv.non_ideal_diffusion_curve(
                diffusion_curve_set=sc.curve_set, feed_temperature=sc.t0, initial_feed_composition=x0, delta_composition=delta,
                number_of_steps=n_pts, permeate_temperature=sc.tp, permeate_pressure=sc.pp, initial_permeances=sc.initial_permeances,
                precision=sc.precision, calculation_type=sc.model, include_zero=sc.include_zero, **sc.orders)
    else:
        def call():
            return getattr(sc.pv, kind)(**sc.call_kwargs())

    if rng.random() < 0.15:
        # initial permeances that (almost) coincide with what the fits give at the initial state - e.g. values read off an
        # earlier run and typed in with a few digits: a first pass without initial permeances yields the fitted values
        from pyvaporation.permeance import Permeance

        saved = sc.initial_permeances
        sc.initial_permeances = None
        try:
            with guards.budget(proc.SOFT_BUDGET):
                r0 = call()
            d1, d2 = rng.choice([0.0, 1e-6, -1e-5, 1e-3]), rng.choice([0.0, 1e-6, -1e-5, 1e-3])
            v1, v2 = r0.permeances[0][0].value * (1 + d1), r0.permeances[0][1].value * (1 + d2)
            if v1 > 0 and v2 > 0:
                sc.initial_permeances = (Permeance(value=v1), Permeance(value=v2))
                case["initial_permeances_near_the_fitted_values"] = [d1, d2]
                case["initial_permeances"] = [[v1, "kg/(m2*h*kPa)"], [v2, "kg/(m2*h*kPa)"]]
            else:
                sc.initial_permeances = saved
        except (Exception, guards.BudgetExceeded):
            sc.initial_permeances = saved
    pvmod.find_best_fit = fbf
    Membrane.calculate_activation_energy = ea
    try:
        with guards.budget(proc.SOFT_BUDGET):
            result = call()
        status = "ok"
    except guards.BudgetExceeded:
        status, result = "slow", None
    except Exception as e:
        status, result = "raised", e
    finally:
        pvmod.find_best_fit = orig_fbf
        Membrane.calculate_activation_energy = orig_ea
    cls = f"{kind}|{'single' if single else 'multi'}" + ("@Tc" if single and sc.t0 == tc else "") + ("|Pinit" if sc.initial_permeances else "") + ("|bundled" if bundled else "")
    steps = n_pts + 1 if kind == "non_ideal_diffusion_curve" else sc.n
    rep.case(case, nontrivial=(status == "ok" and steps >= 2), cls=cls)
    rep.count("runs_" + status)
    if status != "ok":
        return
    observed = len(rec_fit) == 2
    if not observed:
        # the model did not go through the module-level search this time (an implementation may legitimately remember
        # earlier searches): nothing is recorded, the returned functions are judged against the public search directly
        rep.count("inner_searches_not_observed")
    comps = (sc.mix.first_component, sc.mix.second_component)
    extract = (Measurements.from_diffusion_curves_first, Measurements.from_diffusion_curves_second)
    expected = []
    for i in (0, 1):
        ref_data = ref_measurements[i]
        ci = dict(case, component=i)
        want_n = sc.orders["n_first" if i == 0 else "n_second"]
        want_m = 0 if single else sc.orders["m_first" if i == 0 else "m_second"]
        if observed:
            a, k, ret, ret_c = rec_fit[i]
            data = k.get("data", a[0] if a else None)
            rep.require("the search for component i receives exactly that component's measurements from the supplied set",
                        data is not None and fingerprint.deep(data) == fingerprint.deep(ref_data) and k.get("component_index", 0) == i, ci,
                        {"points_given": None if data is None else len(data), "points_expected": len(ref_data), "component_index": k.get("component_index")})
            rep.require("the search is made with the caller's maximum orders (m = 0 for a single curve)", k.get("n") == want_n and k.get("m") == want_m, ci,
                        {"n": k.get("n"), "m": k.get("m"), "expected": [want_n, want_m]})
        else:
            # options the pinned models use: the caller's include_zero except for single-curve process models (never)
            k = {"n": want_n, "m": want_m, "include_zero": sc.include_zero if (not single or kind == "non_ideal_diffusion_curve") else False}
            ret_c = None
        # independent public search with the same options
        best = find_best_fit(data=ref_data, n=k.get("n"), m=k.get("m"), include_zero=k.get("include_zero", False), component_index=i)
        if ret_c is not None:
            rep.require("the fit used equals an independent public best-fit search on that component's measurements (bitwise)", coeffs(best) == ret_c, ci,
                        {"inside": str(ret_c)[:160], "independent": str(coeffs(best))[:160]})
        # the function the model must follow
        rescale = single and not (sc.t0 == tc and kind != "non_ideal_non_isothermal_process")
        if rescale:
            e_i = orig_ea(sc.membrane, comps[i])
            if observed:
                rep.require("single curve: activation energy of that component was queried", any(nm == comps[i].name for nm, _ in rec_ea), ci, {"queried": [nm for nm, _ in rec_ea]})

            def f(x, t, best=best, e_i=e_i):
                return float(best(x, tc)) * math.exp(-e_i / refmodel.R * (1 / t - 1 / tc))
        else:
            def f(x, t, best=best):
                return float(best(x, t))
        expected.append((f, rescale, best))
    # returned fits (process models)
    fits = getattr(result, "permeance_fits", None)
    if kind != "non_ideal_diffusion_curve":
        rep.require("the process model returns its two fitted functions", fits is not None and len(fits) == 2, case)
        for i in (0, 1):
            f, rescale, best = expected[i]
            ci = dict(case, component=i)
            if not rescale:
                rep.require("returned function = the public best-fit search's function (bitwise)", coeffs(fits[i]) == coeffs(best), ci,
                            {"returned": str(coeffs(fits[i]))[:160], "search": str(coeffs(best))[:160]})
            else:
                e_i = orig_ea(sc.membrane, comps[i])
                for _ in range(5):
                    x, t = rng.uniform(0.02, 0.98), rng.uniform(283, 373)
                    got, ref = float(fits[i](x, t)), f(x, t)
                    rep.check("single curve: returned function = curve-temperature fit x Arrhenius factor of the membrane's activation energy",
                              abs(got - ref), 1e-11 * (1 + abs(e_i / refmodel.R * (1 / t - 1 / tc))) * abs(ref), ci, {"x": x, "T": t, "got": got, "ref": ref, "Ea": e_i})
                x = rng.uniform(0.02, 0.98)
                rep.check("single curve: at the curve's temperature the returned function equals the curve-temperature fit",
                          abs(float(fits[i](x, tc)) - float(best(x, tc))), 1e-11 * abs(float(best(x, tc))), ci, {"x": x})
    # permeance series follow the fits
    if kind == "non_ideal_diffusion_curve":
        ws = [c.p for c in result.feed_compositions]
        ts = [sc.t0] * len(ws)
        perms = result.permeances
        w_init = gen.to_weight_exact(x0, sc.mix).p
        lag = False
    else:
        ws = [c.p for c in result.feed_compositions]
        ts = list(result.feed_temperature)
        perms = result.permeances
        w_init = ws[0]
        lag = kind == "non_ideal_isothermal_process"
    F = []
    for i in (0, 1):
        f = expected[i][0]
        if sc.initial_permeances is None:
            F.append(1.0)
        else:
            p_kg = gen.refmodel_permeance_kg(sc.initial_permeances[i], comps[i])
            f0_ = f(w_init, sc.t0)
            if not (f0_ > 0 and math.isfinite(f0_)):
                rep.count("fitted_function_not_positive_at_the_initial_state_skipped")  # exp underflow of a wild fit: no factor is defined
                return
            F.append(p_kg / f0_)
            rep.check("step 0 reproduces the supplied initial permeances", abs(perms[0][i].value - p_kg), 8 * EPS * p_kg, dict(case, component=i),
                      {"got": perms[0][i].value, "supplied_kg": p_kg})
    for k in range(len(perms)):
        for i in (0, 1):
            f = expected[i][0]
            if lag:
                ref = f(ws[max(k - 1, 0)], sc.t0) * F[i]
            else:
                ref = f(ws[k], ts[k]) * F[i]
            ref = max(ref, 0.0)
            rep.check("permeance at step k = fitted function(feed composition, feed temperature) x constant factor",
                      abs(perms[k][i].value - ref), 1e-10 * max(abs(ref), 1e-300), dict(case, component=i, step=k),
                      {"got": perms[k][i].value, "ref": ref, "factor": F[i]})
        rep.count("steps_checked")


def finalize(agg, tier):
    out = []
    need = ["permeance at step k = fitted function(feed composition, feed temperature) x constant factor",
            "the fit used equals an independent public best-fit search on that component's measurements (bitwise)",
            "step 0 reproduces the supplied initial permeances",
            "single curve: returned function = curve-temperature fit x Arrhenius factor of the membrane's activation energy"]
    for o in need:
        if agg["oracles"].get(o, {}).get("checked", 0) < 20:
            out.append(f"oracle '{o}' evaluated fewer than 20 times")
    for k in ("non_ideal_isothermal_process", "non_ideal_non_isothermal_process", "non_ideal_diffusion_curve"):
        if not any(c.startswith(k) for c in agg["classes"]):
            out.append(f"{k} not exercised")
    return out


LEVEL_TEXT = (
    "Exploration: every non-ideal entry point is executed on synthetic single- and multi-temperature curve sets while the "
    "best-fit searches and activation-energy queries made inside it are recorded; the recorded search must have received "
    "exactly the public extractor's measurements of that component and its result must equal an independent public search "
    "bitwise; the returned functions (Arrhenius-rescaled for single curves, compared with an independent formula) are then "
    "evaluated along the reported trajectory and every reported permeance must equal function x one constant factor fixed "
    "by step 0 (1e-10); 15 % of the cases take their initial permeances from a first pass (fitted value x (1 + 0 .. 1e-3)). Held means no oracle failed on this run's executions."
)
LEVEL_NOTE = "Trusted: determinism of the optimiser within one process; the membrane's public calculate_activation_energy (C12)."
TECHNIQUE = "runtime monitoring: boundary recorder of inner best-fit / activation-energy calls + reference recomputation along the reported trajectory"
