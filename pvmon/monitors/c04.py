"""C04 - activity-coefficient models are thermodynamically consistent."""
import math

from .. import gen, refmodel

PROP = "C04"
LEVEL = "exploration"
RULE = (
    "case = (mixture, model, T, x1): the 8 built-in mixtures and synthetic ones (NRTL with one/two non-randomness "
    "factors, with/without temperature-independent terms, zero-parameter NRTL; UNIQUAC with/without separate q'), "
    "T 273-400 K, x1 uniform in (0,1) or log-dense down to 1e-6 from either end. Gibbs-Duhem in integral form "
    "([x1 ln g1 + x2 ln g2] over [x-h,x+h] = integral of ln g1 - ln g2; composite Gauss-Legendre with convergence check, "
    "h = min(x,1-x)/4) on the real calculate_activity_coefficients, pure limits at "
    "1-1e-7 / 1-1e-10 / 1, partial pressure = x*gamma*Psat from the library's own pieces, mass- vs mole-fraction input. "
    "non-trivial = every case (0 < x1 < 1); distinct = distinct (mixture parameters, model, T, x1)"
)
ASSUMPTIONS = [
    "ln(gamma) is recovered from gamma, whose rounding limits the Gibbs-Duhem check near the ends: the evaluation noise is measured (6th finite difference on a fine grid) and enters the tolerance; the smallest detectable relative defect r_min is computed per case and bucketed (sharp <= 1e-6)",
    "known finding KF-UNIQUAC-GAMMA2 is attributed only when gamma_1 equals the published formula and gamma_2 equals the known-bad bracket at every stencil point (1e-11 relative)",
]
EPS = 2.0**-52
NOISE_PROBES = (-13, -8, -5, -3, -2, -1, 1, 2, 3, 5, 8, 13)


class _NonFinite(Exception):
    pass

ANCHORS = [('mixtures/mixture.py', 'gamma_2 = numpy.exp(', 'UNIQUAC gamma_2'), ('mixtures/mixture.py', 'alphas = [mixture.nrtl_params.alpha12, mixture.nrtl_params.alpha21]', 'NRTL with two non-randomness factors')]


def shards(tier, seed):
    n = {"quick": 1200, "thorough": 100000}[tier]
    return [{"n": n} for _ in range(16)]


def _uq_args(mix, T):
    c1, c2 = mix.first_component.uniquac_constants, mix.second_component.uniquac_constants
    u = mix.uniquac_params
    return dict(T=T, r1=c1.r, q1=c1.q_geometric, qp1=c1.q_interaction, r2=c2.r, q2=c2.q_geometric, qp2=c2.q_interaction,
                alpha12=u.alpha_12, alpha21=u.alpha_21, beta12=u.beta_12, beta21=u.beta_21, z=u.z)


def classify_uniquac(mix, T, x, g):
    """-> (matches the pinned known-bad formula, matches the correct formula) at this point, 1e-11 relative"""
    try:
        a = _uq_args(mix, T)
        c = refmodel.uniquac_gammas(x, variant="correct", **a)
        p = refmodel.uniquac_gammas(x, variant="pinned", **a)
    except (OverflowError, ValueError, ZeroDivisionError):
        return False, False

    def close(u, v):
        return abs(u - v) <= 1e-11 * max(abs(u), abs(v))

    if not close(g[0], c[0]):
        return False, False
    return close(g[1], p[1]), close(g[1], c[1])


_GL6_X = [0.2386191860831969, -0.2386191860831969, 0.6612093864662645, -0.6612093864662645, 0.932469514203152, -0.932469514203152]
_GL6_W = [0.467913934572691, 0.467913934572691, 0.3607615730481386, 0.3607615730481386, 0.1713244923791704, 0.1713244923791704]


def _composite_gl(f, a, b, n):
    total = 0.0
    absint = 0.0
    w = (b - a) / n
    for k in range(n):
        mid, half = a + (k + 0.5) * w, w / 2
        for xi, wi in zip(_GL6_X, _GL6_W):
            v = f(mid + half * xi)
            total += wi * v * half
            absint += wi * abs(v) * half
    return total, absint


def gibbs_duhem_integral(lng, x, h, noise=(0.0, 0.0)):
    """Gibbs-Duhem in integral form on [x-h, x+h]:
           [x1 ln g1 + x2 ln g2]_(x-h)^(x+h)  =  integral (ln g1 - ln g2) dx1
    (equivalent to x1 dln g1 + x2 dln g2 = 0; integration, unlike differentiation, does not amplify round-off).
    -> (mismatch, quadrature error estimate, scale of the terms) or None when the quadrature did not converge"""
    a, b = x - h, x + h
    la, lb = lng(a), lng(b)
    dG1 = b * lb[0] - a * la[0]
    dG2 = (1 - b) * lb[1] - (1 - a) * la[1]

    def f(xx):
        l = lng(xx)
        return l[0] - l[1]

    prev = None
    n = 2
    while n <= 128:
        cur, absint = _composite_gl(f, a, b, n)
        if prev is not None:
            e = abs(cur - prev)
            # converged to the level the integrand's own evaluation noise allows
            if e <= 1e-13 * absint + 2 * (b - a) * (noise[0] + noise[1]) + 1e-300:
                scale = max(abs(dG1), abs(dG2), absint)
                return (dG1 + dG2) - cur, e, scale
        prev = cur
        n *= 2
    return None


_PROBE_T = [-0.97, -0.81, -0.66, -0.52, -0.37, -0.21, -0.08, 0.05, 0.19, 0.33, 0.46, 0.61, 0.74, 0.88, 0.99]


def evaluation_noise(lng, x, h, l0):
    """round-off noise of ln(gamma_i) near x: residual of a least-squares quadratic through 15 irregularly spaced
    evaluations in a window (2e-3 h) far narrower than any feature of the model; what the quadratic cannot follow
    is evaluation noise.  -> ~4 sigma per component, never below 4 ulp of (1+|ln gamma|)"""
    import numpy

    out = [4 * EPS * (1 + abs(l0[0])), 4 * EPS * (1 + abs(l0[1]))]
    w = 2e-3 * h
    vals = [lng(x + t * w) for t in _PROBE_T]
    t = numpy.array(_PROBE_T)
    for i in (0, 1):
        y = numpy.array([v[i] - l0[i] for v in vals])
        coef = numpy.polyfit(t, y, 2)
        resid = y - numpy.polyval(coef, t)
        sigma = float(numpy.sqrt(numpy.sum(resid**2) / (len(t) - 3)))
        out[i] = max(out[i], 4 * sigma)
    return out


def gd_tolerance(x, h, qerr, noise, scale):
    x2 = 1 - x
    # every term of the identity carries the evaluation noise once (end values weighted by x_i, the integral by 2h)
    return 4 * qerr + 16 * ((x + h) * noise[0] + (x2 + h) * noise[1] + 2 * h * (noise[0] + noise[1])) + 64 * EPS * scale


def pinned_formula_mismatch(mix, T, x, h):
    """Gibbs-Duhem mismatch of the known-bad reference formula on this interval (same procedure) -> (mismatch, tol)"""
    a = _uq_args(mix, T)

    def lng(xx):
        g = refmodel.uniquac_gammas(xx, variant="pinned", **a)
        return math.log(g[0]), math.log(g[1])

    try:
        noise = evaluation_noise(lng, x, h, lng(x))
        r = gibbs_duhem_integral(lng, x, h, noise)
        if r is None:
            return None
    except (OverflowError, ValueError, ZeroDivisionError):
        return None
    mismatch, qerr, scale = r
    return mismatch, gd_tolerance(x, h, qerr, noise, scale)


def run_shard(spec, rep):
    from pyvaporation.mixtures import Composition, CompositionType, Mixtures, get_partial_pressures
    from pyvaporation.mixtures.mixture import calculate_activity_coefficients

    only = spec.get("only")
    for index in range(spec["n"]):
        if only is not None and index != only:
            continue
        rng = gen.case_rng(PROP, spec["seed"], spec["shard"], index)
        u = rng.random()
        zero = False
        if u < 0.45:
            name = rng.choice(gen.BUILTIN_MIXTURES)
            mix, mdesc = getattr(Mixtures, name), name
        elif u < 0.55:
            mix = gen.synth_mixture(rng, zero_nrtl=True)
            mdesc, zero = gen.describe_mixture(mix), True
        elif u < 0.65:
            # a user-defined mixture that carries the data of one model only (optional fields of the other left out)
            mix = gen.synth_mixture(rng, only=rng.choice(["NRTL", "NRTL", "UNIQUAC"]))
            mdesc = gen.describe_mixture(mix)
        else:
            mix = gen.synth_mixture(rng)
            mdesc = gen.describe_mixture(mix)
        model = "NRTL" if zero else gen.pick_model(rng, mix)
        T = gen.pick_temperature(rng, 273, 400)  # a share of the cases shares few temperatures (and all synthetic mixtures share one name)
        v = rng.random()
        if v < 0.5:
            x = rng.uniform(0.02, 0.98)
        elif v < 0.75:
            x = 10 ** (-rng.uniform(1, 6))
        else:
            x = 1 - 10 ** (-rng.uniform(1, 6))
        case = {"index": index, "mixture": mdesc, "model": model, "T": T, "x1": x}
        n = mix.nrtl_params
        cls = model
        if model == "NRTL":
            cls += "-zero" if zero else ("-2alpha" if n.alpha21 is not None else "-1alpha") + ("-a" if (n.a12 or n.a21) else "")
        else:
            cls += "-q'" if mix.first_component.uniquac_constants.q_interaction != mix.first_component.uniquac_constants.q_geometric else ""
        rep.case(case, cls=cls)

        def gam(xx):
            rep.count("activity_coefficient_evaluations")
            g = calculate_activity_coefficients(T, mix, Composition(p=xx, type=CompositionType.molar), model)
            return float(g[0]), float(g[1])

        try:
            # a result the caller still holds must not change when the library is called again, and tampering with a
            # returned object must not leak into later answers
            ra = calculate_activity_coefficients(T, mix, Composition(p=x, type=CompositionType.molar), model)
            snap = (float(ra[0]), float(ra[1]))
            x_other = min(0.999, max(0.001, 1 - x))
            calculate_activity_coefficients(T, mix, Composition(p=x_other, type=CompositionType.molar), model)
            rep.require("a returned result is not changed by later calls", (float(ra[0]), float(ra[1])) == snap, case, {"first": snap, "now": [float(ra[0]), float(ra[1])]})
            try:
                ra[0] = -1.0  # mutable container (list / array): spoil it
            except TypeError:
                pass
            rb = calculate_activity_coefficients(T, mix, Composition(p=x, type=CompositionType.molar), model)
            rep.require("tampering with a returned object does not affect later answers", (float(rb[0]), float(rb[1])) == snap, case, {"first": snap, "after": [float(rb[0]), float(rb[1])]})
            _one(rep, case, mix, model, T, x, zero, gam, Composition, CompositionType, get_partial_pressures)
        except Exception as e:
            rep.violation("valid thermodynamic call raised", case, {"error": repr(e)})


def ridders(f, x, h, n=2):
    """Ridders' extrapolated central differences for a vector-valued f (Numerical Recipes dfridr).
    -> (derivatives, error estimates); handles both truncation and round-off (stops when the error grows)."""
    CON, CON2, NTAB, SAFE = 1.4, 1.96, 10, 2.0
    a = [[None] * NTAB for _ in range(NTAB)]
    fp, fm = f(x + h), f(x - h)
    a[0][0] = [(fp[k] - fm[k]) / (2 * h) for k in range(n)]
    best = list(a[0][0])
    err = [float("inf")] * n
    done = [False] * n
    for i in range(1, NTAB):
        h /= CON
        fp, fm = f(x + h), f(x - h)
        a[0][i] = [(fp[k] - fm[k]) / (2 * h) for k in range(n)]
        fac = CON2
        for j in range(1, i + 1):
            a[j][i] = [(a[j - 1][i][k] * fac - a[j - 1][i - 1][k]) / (fac - 1) for k in range(n)]
            fac *= CON2
            for k in range(n):
                if done[k]:
                    continue
                e = max(abs(a[j][i][k] - a[j - 1][i][k]), abs(a[j][i][k] - a[j - 1][i - 1][k]))
                if e <= err[k]:
                    err[k] = e
                    best[k] = a[j][i][k]
        for k in range(n):
            if not done[k] and abs(a[i][i][k] - a[i - 1][i - 1][k]) >= SAFE * err[k]:
                done[k] = True
        if all(done):
            break
    return best, err


def _one(rep, case, mix, model, T, x, zero, gam, Composition, CompositionType, get_partial_pressures):
    x2 = 1 - x
    h = 0.25 * min(x, x2)
    seen = {}

    def lng(xx):
        g = gam(xx)
        seen[xx] = g
        if not (g[0] > 0 and g[1] > 0 and math.isfinite(g[0]) and math.isfinite(g[1])):
            raise _NonFinite()
        return math.log(g[0]), math.log(g[1])

    try:
        g0 = gam(x)
        seen[x] = g0
        l0 = lng(x)
        d, derr = ridders(lng, x, h)  # only to express the sensitivity of the integral test and for the basis check
        # evaluation noise of ln(gamma): ln is recovered from gamma ~ 1 + tiny near the ends, and the UNIQUAC
        # expression cancels large terms
        noise = evaluation_noise(lng, x, h, l0)
        res = gibbs_duhem_integral(lng, x, h, noise)
    except _NonFinite:
        rep.count("skipped_nonfinite_gamma")
        return
    if res is None:
        rep.count("gibbs_duhem_quadrature_not_converged")
    else:
        mismatch, qerr, scale = res
        tol = gd_tolerance(x, h, qerr, noise, scale)
        resid = abs(mismatch)
        # smallest relative Gibbs-Duhem defect (relative to the larger of |x_i dln g_i/dx1|) this test can see here
        term = max(abs(x * d[0]), abs(x2 * d[1]), 1e-300)
        r_min = tol / (2 * h * term)
        sharp = r_min <= 1e-6
        rep.count("gibbs_duhem_sharp(r_min<=1e-6)" if sharp else ("gibbs_duhem_medium(r_min<=1e-2)" if r_min <= 1e-2 else "gibbs_duhem_blunt"))
        sig = None
        attributable = False
        if model == "UNIQUAC":
            marks = [classify_uniquac(mix, T, xx, p) for xx, p in seen.items()]
            all_pinned = all(m[0] for m in marks)
            all_correct = all(m[1] for m in marks)
            sig = {(True, False): "pinned", (True, True): "ambiguous", (False, True): "correct", (False, False): "other"}[(all_pinned, all_correct)]
            rep.count("uniquac_signature_" + sig)
            if resid > tol:
                # known finding iff every observed value is the known-bad formula's value and (where the two
                # variants are numerically indistinguishable) the known-bad formula's own mismatch on this interval explains it
                if sig == "pinned":
                    attributable = True
                elif sig == "ambiguous":
                    ref = pinned_formula_mismatch(mix, T, x, h)
                    attributable = ref is not None and abs(mismatch - ref[0]) <= tol + ref[1]
        if resid > tol and attributable:
            o = rep.oracles.setdefault("Gibbs-Duhem (UNIQUAC, attributed to KF-UNIQUAC-GAMMA2)", {"checked": 0, "max_ratio": 0.0, "failed": 0})
            o["checked"] += 1
            rep.known_finding("KF-UNIQUAC-GAMMA2", "Gibbs-Duhem (integral form) fails with gamma_1 = published formula and gamma_2 = known-bad bracket", case)
            rep.note_max("known_uniquac_gd_relative_defect", resid / (2 * h * term))
        else:
            rep.check(f"Gibbs-Duhem {model}", resid, tol, case,
                      {"relative_defect": resid / (2 * h * term), "scale": scale, "quad_err": qerr, "noise": noise, "signature": sig, "h": h})

    # pure-component limits
    for dist in (1e-7, 1e-10):
        ga = gam(1 - dist)
        rep.check("gamma_1 -> 1 as x1 -> 1", abs(ga[0] - 1), 1e-6, dict(case, at=1 - dist), {"gamma1": ga[0]})
        gb = gam(dist)
        rep.check("gamma_2 -> 1 as x2 -> 1", abs(gb[1] - 1), 1e-6, dict(case, at=dist), {"gamma2": gb[1]})
    g_one, g_zero = gam(1.0), gam(0.0)
    if model == "NRTL":
        rep.require("NRTL: gamma_i = 1 exactly for the pure component", g_one[0] == 1.0 and g_zero[1] == 1.0, case,
                    {"g1(x1=1)": g_one[0], "g2(x1=0)": g_zero[1]})
    else:
        # the library evaluates UNIQUAC 1e-5 away from the end (its own regularisation); models with tau ~ 1e-5
        # have features on that scale, so only a coarse closeness to the limit can be demanded there
        rep.check("UNIQUAC: gamma_i at the exact end point finite and near 1", max(abs(g_one[0] - 1), abs(g_zero[1] - 1)), 1e-3, case,
                  {"g1(x1=1)": g_one[0], "g2(x1=0)": g_zero[1]})
    if zero:
        rep.require("zero NRTL parameters: gamma = 1 (Raoult) bitwise", all(p == (1.0, 1.0) for p in seen.values()), case, {"gammas": list(seen.values())[:4]})

    # partial pressures from the library's own pieces
    xm = Composition(p=x, type=CompositionType.molar)
    pp = get_partial_pressures(T, mix, xm, model)
    ps1 = mix.first_component.get_vapor_pressure(T)
    ps2 = mix.second_component.get_vapor_pressure(T)
    ref = (ps1 * g0[0] * x, ps2 * g0[1] * (1 - x))
    if not all(math.isfinite(float(v)) for v in tuple(pp) + ref):
        rep.count("skipped_partial_pressure_out_of_float_range")
        return
    for i in (0, 1):
        rep.check("p_i = x_i * gamma_i * Psat_i", abs(float(pp[i]) - ref[i]), 4 * EPS * abs(ref[i]), dict(case, i=i), {"got": float(pp[i]), "ref": ref[i]})
    # basis independence: the equivalent mass fraction as input
    w = gen.to_weight_exact(xm, mix)
    if 0 < w.p < 1:
        from pyvaporation.mixtures.mixture import calculate_activity_coefficients

        gw = calculate_activity_coefficients(T, mix, w, model)
        amp_g = 1 + x / x2 + w.p / (1 - w.p)
        for i in (0, 1):
            rep.check("activity coefficients from the equivalent mass fraction are the same", abs(float(gw[i]) - g0[i]),
                      (64 * EPS * amp_g * (1 + abs(d[i]) * x) + 4 * noise[i]) * abs(g0[i]), dict(case, i=i), {"from_mass": float(gw[i]), "from_mole": g0[i], "w": w.p})
        pw = get_partial_pressures(T, mix, w, model)
        # evaluation noise of the library at this point: same call with x1 moved by a few ulp
        lnoise = noise
        noise = [0.0, 0.0]
        for k in NOISE_PROBES:
            xn = x * (1 + k * EPS)
            if 0 < xn < 1:
                pn = get_partial_pressures(T, mix, Composition(p=xn, type=CompositionType.molar), model)
                for i in (0, 1):
                    noise[i] = max(noise[i], abs(float(pn[i]) - float(pp[i])))
        # x2 = 1 - x1 amplifies the relative error of x1 by x1/x2 (same for w)
        amp = 1 + x / x2 + w.p / (1 - w.p)
        for i in (0, 1):
            sens = 1 + abs(d[i]) * x
            rep.check("mass- and mole-fraction input give the same partial pressures",
                      abs(float(pw[i]) - float(pp[i])), 64 * EPS * amp * sens * abs(float(pp[i])) + 8 * noise[i] + 4 * lnoise[i] * abs(float(pp[i])), dict(case, i=i),
                      {"from_mass": float(pw[i]), "from_mole": float(pp[i]), "w": w.p, "noise": noise[i]})


def finalize(agg, tier):
    out = []
    need = ["NRTL-1alpha", "NRTL-2alpha", "NRTL-zero", "UNIQUAC"]
    for c in need:
        if not any(k.startswith(c) for k in agg["classes"]):
            out.append(f"workload class {c} not exercised")
    if agg["counters"].get("gibbs_duhem_sharp(r_min<=1e-6)", 0) < 100:
        out.append("fewer than 100 sharp Gibbs-Duhem evaluations")
    return out


LEVEL_TEXT = (
    "Exploration: the real calculate_activity_coefficients / get_partial_pressures are executed on thousands of "
    "(mixture, model, T, x) cases per run covering all built-in mixtures, every NRTL parameter shape and UNIQUAC with "
    "and without q'; Gibbs-Duhem is decided in integral form on the real function with a tolerance that is a pure "
    "numerical-error bound (quadrature error + measured evaluation noise), limits, Raoult reduction (bitwise), the partial-pressure "
    "product (4 ulp) and basis independence. UNIQUAC Gibbs-Duhem failures are reported as the known finding only when "
    "the executable signature of KF-UNIQUAC-GAMMA2 matches at every stencil point; everything else is a violation. "
    "Returned results are held across later calls and overwritten before the request is repeated (no aliased results); "
    "one burst of concurrent calls from 4 threads per shard must reproduce the serial values."
)
LEVEL_NOTE = "Trusted: refmodel.uniquac_gammas (only for classifying the known finding), numerical differentiation with explicit round-off bound; sampled domain only."
TECHNIQUE = "runtime monitoring: numerical-derivative identity oracle on seeded executions of the real activity-coefficient code, signature-based known-finding classifier"
