"""C16 - curve fitting is pure, deterministic and returns the best candidate it tried."""
import math
from pathlib import Path

from .. import bootstrap, fingerprint, gen, refmodel

PROP = "C16"
LEVEL = "exploration"
RULE = (
    "case = a measurement set of 3..20 (thorough: ..40) points at 1..4 temperatures generated from a synthetic "
    "composition-/temperature-dependent permeance law with 0-5 % noise, maximum orders n, m in 0..2 (thorough: ..3), "
    "include_zero on/off, component index 0/1; on one shared data object the history fit -> fit(include_zero) -> "
    "find_best_fit -> find_best_fit (equal copy) is executed, every inner fit call of the search is recorded, and every "
    "single public fit(n' <= n, m' <= m) is run independently. VLE cases: fit_vle(method=None) against each of the nine "
    "single methods on all 8 bundled VLE data sets. non-trivial = the search had more than one candidate; distinct = distinct data"
)
ASSUMPTIONS = [
    "squared error is recomputed by the harness from the returned function's public __call__ on the supplied data",
    "fit_vle errors are recomputed with the library's public objective on the returned parameters",
]
EPS = 2.0**-52
SHARD_TIMEOUT = {"quick": 2400, "thorough": 20000}
VLE_SETS = ["MeOH_DMC", "H2O_AceticAcid", "EtOH_ETBE", "MeOH_MTBE", "MeOH_Toluene", "H2O_MeOH", "H2O_iPOH", "H2O_EtOH"]

ANCHORS = [('optimizer/optimizer.py', 'x=component_index,', 'zero points appended for include_zero'), ('mixtures/uniquac_fitting.py', 'if current_error < error:', 'best-of-methods comparison in fit_vle')]


def shards(tier, seed):
    if tier == "quick":
        out = [{"n": 12, "max_points": 20, "max_order": 2, "vle": []} for _ in range(8)]
        out += [{"n": 3, "max_points": 20, "max_order": 2, "vle": [name]} for name in VLE_SETS]
        return out
    out = [{"n": 120, "max_points": 40, "max_order": 3, "vle": []} for _ in range(8)]
    out += [{"n": 60, "max_points": 40, "max_order": 3, "vle": [name]} for name in VLE_SETS]
    return out


def gen_measurements(rng, max_points):
    from pyvaporation.optimizer.optimizer import Measurement, Measurements

    n_t = rng.randint(1, 4)
    temps = sorted(rng.uniform(293, 363) for _ in range(n_t))
    law, desc = gen.synth_permeance_law(rng, temperature_dependent=n_t > 1)
    n = rng.randint(3, max_points)
    noise = rng.choice([0.0, 0.01, 0.05])
    data = []
    for i in range(n):
        t = temps[i % n_t]
        x = rng.uniform(0.02, 0.98)
        if rng.random() < 0.08:
            x = rng.choice([0.0, 1.0])  # a measured point exactly at a pure-component boundary (composition grid 0 ... 1)
        data.append(Measurement(x=x, t=t, p=law(x, t) * math.exp(rng.gauss(0, noise))))
    ints = rng.random() < 0.15
    if ints:
        # whole-number readings typed in as plain ints (permeances in GPU, temperatures in whole kelvin)
        k = rng.choice([2.0, 3.0, 10.0]) / max(min(m.p for m in data), 1e-300)
        data = [Measurement(x=m.x, t=int(round(m.t)), p=max(1, int(round(m.p * k)))) for m in data]
    return Measurements(data=data), {"law": desc, "temps": temps, "points": n, "noise": noise, "whole_number_readings_as_ints": ints}


def sq_error(f, data):
    return sum((float(f(m.x, m.t)) - m.p) ** 2 for m in data.data)


def coeffs(f):
    return fingerprint.deep((f.n, f.m, f.alpha, list(f.a), list(f.b)))


def fit_case(rep, spec, index):
    import pyvaporation.optimizer.optimizer as opt
    from pyvaporation.optimizer.optimizer import Measurements, PervaporationFunction, find_best_fit, fit

    rng = gen.case_rng(PROP, spec["seed"], spec["shard"], index)
    data, desc = gen_measurements(rng, spec["max_points"])
    n_max, m_max = rng.randint(0, spec["max_order"]), rng.randint(0, spec["max_order"])
    use_defaults = rng.random() < 0.15
    include_zero = rng.random() < 0.5
    comp_index = rng.choice([0, 1])
    case = {"index": index, "data": desc, "n": None if use_defaults else n_max, "m": None if use_defaults else m_max,
            "include_zero": include_zero, "component_index": comp_index}
    fp0 = fingerprint.deep(data)
    copy_ = Measurements(data=[type(m)(x=m.x, t=m.t, p=m.p) for m in data.data])
    kw = {} if use_defaults else {"n": n_max, "m": m_max}

    def unchanged(after_what):
        d = fingerprint.first_difference(fp0, fingerprint.deep(data))
        rep.require("the supplied measurements are never modified", d is None, dict(case, after=after_what), {"difference": d, "points_now": len(data)})

    # history on one shared object
    f1 = fit(data, n=min(n_max, 1), m=0, include_zero=False, component_index=comp_index)
    unchanged("fit")
    f2 = fit(data, n=min(n_max, 1), m=0, include_zero=True, component_index=comp_index)
    unchanged("fit(include_zero=True)")
    f1b = fit(copy_, n=min(n_max, 1), m=0, include_zero=False, component_index=comp_index)
    rep.require("repeating a fit on equal data gives identical coefficients", coeffs(f1) == coeffs(f1b), case, {"first": str(coeffs(f1))[:200], "second": str(coeffs(f1b))[:200]})
    # the caller perturbs a function it got back (sensitivity study): a later identical request must not hand the spoilt object out
    spoil = fit(data, n=min(n_max, 1), m=0, include_zero=False, component_index=comp_index)
    spoil.alpha = spoil.alpha * 3.0 + 1.0
    try:
        spoil.a[0] = 123.0
    except (IndexError, TypeError):
        pass
    f1c = fit(data, n=min(n_max, 1), m=0, include_zero=False, component_index=comp_index)
    rep.require("tampering with a returned fit does not affect later fits", coeffs(f1c) == coeffs(f1b), case, {"expected": str(coeffs(f1b))[:200], "got": str(coeffs(f1c))[:200]})
    # record the inner candidates of the search
    inner = []
    orig_fit = opt.fit

    def rec_fit(d, n=None, m=None, include_zero=False, component_index=0):
        r = orig_fit(d, n=n, m=m, include_zero=include_zero, component_index=component_index)
        inner.append((n, m, include_zero, component_index, d is data, r))
        return r

    opt.fit = rec_fit
    try:
        best = find_best_fit(data, include_zero=include_zero, component_index=comp_index, **kw)
    finally:
        opt.fit = orig_fit
    unchanged("find_best_fit")
    best2 = find_best_fit(copy_, include_zero=include_zero, component_index=comp_index, **kw)
    rep.require("repeating the best-fit search on equal data gives identical coefficients", coeffs(best) == coeffs(best2), case,
                {"first": str(coeffs(best))[:200], "second": str(coeffs(best2))[:200]})
    # the same Measurements OBJECT edited in place (one re-measured value, same number of points), searched again: must equal
    # the search on a fresh object holding the edited data
    if len(data.data) >= 2 and rng.random() < 0.5:
        j_ = rng.randrange(len(data.data))
        data.data[j_].p = data.data[j_].p * rng.uniform(1.5, 3.0)
        fresh_obj = Measurements(data=[type(m)(x=m.x, t=m.t, p=m.p) for m in data.data])
        again = find_best_fit(data, include_zero=include_zero, component_index=comp_index, **kw)
        ref_again = find_best_fit(fresh_obj, include_zero=include_zero, component_index=comp_index, **kw)
        rep.require("after an in-place edit of the data the search equals a search on a fresh object with the edited data (bitwise)",
                    coeffs(again) == coeffs(ref_again), dict(case, edited_point=j_), {"edited_object": str(coeffs(again))[:200], "fresh_object": str(coeffs(ref_again))[:200]})
        fp0 = fingerprint.deep(data)
        copy_ = fresh_obj
        best = again
    # the grid the statement talks about
    if use_defaults:
        n_grid = list(range(min(5, round(len(data) ** 0.5))))
        m_grid = list(range(min(5, max(1, len({m.t for m in data.data}) - 1))))
    else:
        n_grid, m_grid = list(range(n_max + 1)), list(range(m_max + 1))
    rep.case(case, nontrivial=len(n_grid) * len(m_grid) > 1, cls=f"fit|{'defaults' if use_defaults else 'orders'}|zero={include_zero}")
    if inner:
        tried = {(c[0], c[1]) for c in inner}
        rep.require("the recorded inner candidates cover the requested grid", tried >= {(a, b) for a in n_grid for b in m_grid}, case,
                    {"tried": sorted(tried), "grid": [n_grid, m_grid]})
        rep.require("inner candidates are fitted on the supplied data with the caller's options",
                    all(c[2] == include_zero and c[3] == comp_index and c[4] for c in inner), case)
    else:
        rep.count("inner_fit_calls_not_observed")
    e_best = sq_error(best, data)
    worst = None
    for a in n_grid:
        for b in m_grid:
            cand = fit(data, n=a, m=b, include_zero=include_zero, component_index=comp_index)
            rep.count("independent_single_fits")
            e = sq_error(cand, data)
            if not (e_best <= e * (1 + 1e-12) + 1e-300):
                worst = {"n": a, "m": b, "candidate_error": e, "returned_error": e_best}
    unchanged("independent fits")
    rep.require("returned function's squared error <= that of every single fit within the maximum orders", worst is None, case, worst)
    # evaluation formula and scaling
    for f in (best, f2):
        for _ in range(4):
            x, t = rng.uniform(0, 1), rng.uniform(280, 380)
            ref = refmodel.pervaporation_function(float(f.alpha), [float(v) for v in f.a], [float(v) for v in f.b], x, t)
            expo = sum(abs(float(ai)) * x ** (i + 1) for i, ai in enumerate(f.a)) + sum(abs(float(bi)) * x**i for i, bi in enumerate(f.b)) / t
            rep.check("f(x,T) = alpha*exp(sum a_i x^(i+1) - sum b_i x^i / T)", abs(float(f(x, t)) - ref), 16 * EPS * (1 + expo) * abs(ref), case,
                      {"got": float(f(x, t)), "ref": ref})
            c = gen.loguniform(rng, 1e-3, 1e3)
            before = coeffs(f)
            g = f * c
            rep.check("(f*c)(x,T) = c*f(x,T)", abs(float(g(x, t)) - c * float(f(x, t))), 4 * EPS * abs(c * float(f(x, t))), case, {"c": c})
            rep.require("multiplying a function by a constant does not change the function", coeffs(f) == before, case)


def fp_vle(data):
    return fingerprint.deep([(p.composition.p, repr(p.composition.type), tuple(p.pressures), p.temperature) for p in data.data] + [c.name for c in data.components])


def vle_case(rep, spec, name):
    from pyvaporation.mixtures import VLEPoints, fit_vle
    from pyvaporation.mixtures.uniquac_fitting import FITTING_ALGS, objective

    path = bootstrap.repo_root() / "tests" / "VLE_data" / "binary" / f"{name}.csv"
    data = VLEPoints.from_csv(path)
    case = {"index": "vle:" + name, "data_set": name, "points": len(data)}
    rep.case(case, cls="vle")
    fp0 = fp_vle(data)
    best = fit_vle(data)
    rep.require("fit_vle never modifies the VLE points", fp_vle(data) == fp0, case)
    arr = lambda u: [u.alpha_12, u.alpha_21, u.beta_12, u.beta_21, u.z]
    e_best = float(objective(data, arr(best)))
    worst = None
    for alg in FITTING_ALGS:
        single = fit_vle(data, method=alg)
        rep.count("single_method_vle_fits")
        e = float(objective(data, arr(single)))
        if not (e_best <= e * (1 + 1e-12)):
            worst = {"method": alg, "single_error": e, "best_error": e_best}
    rep.require("fit_vle(method=None) error <= every single method's error", worst is None, case, worst)
    rep.require("fit_vle never modifies the VLE points", fp_vle(data) == fp0, case)
    spoil = fit_vle(data, method="Powell")
    ref_powell = fingerprint.deep(arr(spoil))
    spoil.alpha_21 = spoil.alpha_21 + 25.0
    spoil.beta_12 = spoil.beta_12 * 1.5
    rep.require("tampering with returned UNIQUAC parameters does not affect later fits", fingerprint.deep(arr(fit_vle(data, method="Powell"))) == ref_powell, case)
    again = fit_vle(VLEPoints.from_csv(path))
    rep.require("repeating fit_vle on equal data gives identical parameters", fingerprint.deep(arr(best)) == fingerprint.deep(arr(again)), case,
                {"first": arr(best), "second": arr(again)})


def run_shard(spec, rep):
    only = spec.get("only")
    for index in range(spec["n"]):
        if only is not None and index != only:
            continue
        if rep.n_violations >= 10:
            break
        try:
            fit_case(rep, spec, index)
        except Exception as e:
            rep.harness_error(f"C16 case {index}: {e!r}", e)
    for name in spec["vle"]:
        if only is not None and only != "vle:" + name:
            continue
        try:
            vle_case(rep, spec, name)
        except Exception as e:
            rep.harness_error(f"C16 vle {name}: {e!r}", e)


def finalize(agg, tier):
    out = []
    need = ["the supplied measurements are never modified", "returned function's squared error <= that of every single fit within the maximum orders",
            "the recorded inner candidates cover the requested grid", "fit_vle(method=None) error <= every single method's error"]
    mins = {"fit_vle(method=None) error <= every single method's error": 8}
    for o in need:
        if agg["oracles"].get(o, {}).get("checked", 0) < mins.get(o, 20):
            out.append(f"oracle '{o}' evaluated fewer than {mins.get(o, 20)} times")
    return out


LEVEL_TEXT = (
    "Exploration over call histories on shared data objects: the real fit / find_best_fit / fit_vle are executed, NaN-stable "
    "deep fingerprints of the supplied data are compared after every call (also with include_zero=True), repeated calls on "
    "equal copies must give bit-identical coefficients, the inner candidates of the search are recorded and the returned "
    "function's squared error is compared with independently run single fits over the whole requested grid (and the VLE "
    "fit with each of the nine methods); the fitted function's evaluation and scaling laws are checked against an "
    "independent formula. Returned fits are overwritten by the caller before an identical request is repeated."
)
LEVEL_NOTE = "Trusted: scipy's optimisers are deterministic for equal inputs in one process; errors are recomputed by the harness."
TECHNIQUE = "runtime monitoring: deep-fingerprint purity monitor + recorded inner candidates + best-of oracle over call histories on shared objects"
