"""C12 - membrane permeance follows the Arrhenius law of its experiments."""
import math

from .. import gen, refmodel

PROP = "C12"
LEVEL = "exploration"
RULE = (
    "case = (membrane, query temperature): 1..6 experiments per component at distinct temperatures (>= 1 K apart, "
    "shuffled and interleaved with the other component's), stated or unstated activation energy in -60..120 kJ/mol, "
    "on an Arrhenius line or perturbed, any of the 3 units, built directly or (30 % of the built-in mixtures) written to an "
    "ideal_experiments.csv with empty cells and read back through IdealExperiments.from_csv; queries at 260-420 K, 25 % exactly at an experiment's "
    "temperature; near-ties between nearest experiments (< 1e-6 K) are re-drawn. Reference: independent nearest-"
    "experiment search + exact-rational regression. non-trivial = query off the experiment temperatures; distinct = "
    "distinct (experiments, query)"
)
ASSUMPTIONS = ["all experiments of one component are given in one unit", "R = 8.314462"]
EPS = 2.0**-52

ANCHORS = [('membrane/membrane.py', 'activation_energy, c = numpy.linalg.lstsq', 'activation-energy regression')]


def shards(tier, seed):
    n = {"quick": 1200, "thorough": 100000}[tier]
    return [{"n": n} for _ in range(16)]


def _plain(mem, comp):
    out = []
    for e in mem.ideal_experiments.experiments:
        if e.component.name == comp.name:
            out.append({
                "T": e.temperature, "value": e.permeance.value, "units": e.permeance.units, "Ea": e.activation_energy,
                "value_kg": refmodel.permeance_kg(e.permeance.value, e.permeance.units, comp.molecular_weight),
            })
    return out


def run_shard(spec, rep):
    from pyvaporation.experiments import IdealExperiments
    from pyvaporation.membrane import Membrane
    from pyvaporation.permeance import Units

    only = spec.get("only")
    for index in range(spec["n"]):
        if only is not None and index != only:
            continue
        rng = gen.case_rng(PROP, spec["seed"], spec["shard"], index)
        mix, mdesc = gen.gen_mixture(rng)
        c1, c2 = mix.first_component, mix.second_component
        stated = [rng.random() < 0.5, rng.random() < 0.5]
        on_line = rng.random() < 0.5
        ns = [rng.randint(1, 6) if stated[i] else rng.randint(2, 6) for i in (0, 1)]
        e1, ea1 = gen.gen_experiments(rng, c1, ns[0], stated[0], on_line)
        e2, ea2 = gen.gen_experiments(rng, c2, ns[1], stated[1], on_line)
        exps = e1 + e2
        rng.shuffle(exps)
        mem = Membrane(name="M", ideal_experiments=IdealExperiments(experiments=exps))
        plain = [_plain(mem, c1), _plain(mem, c2)]
        route = "direct"
        if isinstance(mdesc, str) and rng.random() < 0.3:
            # the same experiments written to ideal_experiments.csv (empty cells for unstated activation energies and
            # for most comments) and read back through the library: the membrane must answer like the direct one
            import csv
            import os
            import tempfile

            d = tempfile.mkdtemp(prefix="pvmon_c12_")
            try:
                with open(os.path.join(d, "ideal_experiments.csv"), "w", newline="") as fh:
                    wr = csv.writer(fh)
                    wr.writerow(["name", "temperature", "component", "activation_energy", "permeance", "units", "comment"])
                    from pyvaporation.components import Components

                    attr_of = {id(v): k for k, v in vars(Components).items() if not k.startswith("_")}
                    for e in exps:
                        wr.writerow(["exp", repr(e.temperature), attr_of[id(e.component)], "" if e.activation_energy is None else repr(e.activation_energy),
                                     repr(e.permeance.value), e.permeance.units, "note" if rng.random() < 0.3 else ""])
                mem = Membrane(name="M", ideal_experiments=IdealExperiments.from_csv(os.path.join(d, "ideal_experiments.csv")))
                route = "csv"
            finally:
                import shutil

                shutil.rmtree(d, ignore_errors=True)
            rep.require("csv route: every experiment row is loaded", len(mem.ideal_experiments.experiments) == len(exps), {"index": index, "mixture": mdesc},
                        {"written": len(exps), "loaded": len(mem.ideal_experiments.experiments)})
        cls = f"{'stated' if stated[0] else 'regressed'}-{'line' if on_line else 'scatter'}-{route}"
        for q in range(6):
            # query temperature
            while True:
                if rng.random() < 0.25:
                    t = rng.choice(exps).temperature
                else:
                    t = rng.uniform(260, 420)
                ok = True
                for pl in plain:
                    d = sorted(abs(e["T"] - t) for e in pl)
                    if len(d) > 1 and d[1] - d[0] < 1e-6:
                        ok = False
                if ok:
                    break
            case = {"index": index, "query": q, "mixture": mdesc, "membrane": gen.describe_membrane(mem), "T": t}
            exact_hit = any(e["T"] == t for pl in plain for e in pl)
            rep.case(case, nontrivial=not exact_hit, cls=cls)
            try:
                got = []
                for comp, pl, stated_c, ea_true in ((c1, plain[0], stated[0], ea1), (c2, plain[1], stated[1], ea2)):
                    if (index + q) % 5 == 0:
                        # the query is made with the user's OWN description of that substance: same name and molar mass, other
                        # heat-capacity constants - experiments are matched by the component's name
                        import attr

                        h = comp.heat_capacity_constants
                        comp = attr.evolve(comp, heat_capacity_constants=attr.evolve(h, a=h.a + 1.0, b=h.b * 1.01))
                        rep.count("queries_with_a_same_named_user_defined_component")
                    p = mem.get_permeance(t, comp)
                    rep.count("permeance_queries")
                    got.append(p.value)
                    ref, idx, ea = refmodel.membrane_permeance(pl, t)
                    c2_ = dict(case, component=comp.name)
                    rep.require("permeance reported in kg/(m2 h kPa)", p.units == Units.kg_m2_h_kPa, c2_, {"units": p.units})
                    if pl[idx]["T"] == t:
                        rep.check("at an experiment temperature: the measured value", abs(p.value - ref), (4 * EPS if route == "direct" else 1e-12) * ref, c2_,  # pandas' default float parser is not correctly rounded
                                  {"got": p.value, "ref": ref})
                    else:
                        rep.check("Arrhenius extrapolation from the nearest experiment", abs(p.value - ref), 1e-9 * ref, c2_,
                                  {"got": p.value, "ref": ref, "nearest": pl[idx]["T"], "Ea": ea})
                    if len(pl) >= 2 or pl[0]["Ea"] is None:
                        if len(pl) >= 2:
                            e_got = mem.calculate_activation_energy(comp)
                            e_ref = refmodel.regressed_activation_energy([e["T"] for e in pl], [e["value"] for e in pl])
                            # absolute tolerance expressed through its effect on the largest exponent used (160 K span)
                            rep.check("regressed activation energy", abs(e_got - e_ref) / refmodel.R * (1 / 260 - 1 / 420), 1e-9, c2_,
                                      {"got": e_got, "ref": e_ref})
                            if on_line:
                                rep.check("on-line data: regression recovers Ea", abs(e_got - ea_true), 1e-7 * abs(ea_true) + 1e-4, c2_,
                                          {"got": e_got, "true": ea_true})
                                line = pl[0]["value_kg"] * math.exp(-ea_true / refmodel.R * (1 / t - 1 / pl[0]["T"]))
                                rep.check("on-line data: permeance independent of the nearest experiment", abs(p.value - line), 1e-7 * line, c2_,
                                          {"got": p.value, "line": line})
                    elif len(pl) == 1 and pl[0]["Ea"] is not None:
                        rep.check("single experiment: stated Ea returned",
                                  abs(mem.calculate_activation_energy(comp) - pl[0]["Ea"]), 0.0 if route == "direct" else 1e-12 * abs(pl[0]["Ea"]), c2_)
                    # pure component flux
                    psat = comp.get_vapor_pressure(t)
                    tp = rng.uniform(120, t)
                    pp = rng.uniform(0, psat)
                    f0 = mem.get_estimated_pure_component_flux(t, comp)
                    ft = mem.get_estimated_pure_component_flux(t, comp, permeate_temperature=tp)
                    fp = mem.get_estimated_pure_component_flux(t, comp, permeate_pressure=pp)
                    rep.check("pure flux = P*Psat", abs(f0 - p.value * psat), 4 * EPS * p.value * psat, c2_, {"got": f0})
                    rep.check("pure flux = P*(Psat-Psat(Tp))", abs(ft - p.value * (psat - comp.get_vapor_pressure(tp))), 4 * EPS * p.value * psat, c2_, {"got": ft, "Tp": tp})
                    rep.check("pure flux = P*(Psat-p)", abs(fp - p.value * (psat - pp)), 4 * EPS * p.value * psat, c2_, {"got": fp, "pp": pp})
                sw = mem.get_ideal_selectivity(t, c1, c2, "weight")
                sm = mem.get_ideal_selectivity(t, c1, c2, "molar")
                rep.check("mass selectivity = P1/P2", abs(sw - got[0] / got[1]), 4 * EPS * sw, case, {"got": sw})
                ref_m = sw * c2.molecular_weight / c1.molecular_weight
                rep.check("molar selectivity = mass selectivity * M2/M1", abs(sm - ref_m), 16 * EPS * ref_m, case, {"molar": sm, "ref": ref_m})
                rep.check("default selectivity is the molar one", abs(mem.get_ideal_selectivity(t, c1, c2) - sm), 0.0, case)
            except Exception as e:
                rep.violation("valid membrane query raised", case, {"error": repr(e)})
        rrng = gen.case_rng(PROP + ":replicates", spec["seed"], spec["shard"], index)
        if rrng.random() < 0.2:
            # replicate measurements (round 9): one temperature measured twice with different readings, no stated activation
            # energy - the regression is over ALL experiments. Only the activation energy is judged here ("the nearest
            # experiment's value" is ambiguous between replicates, so the permeance is not).
            import attr
            from pyvaporation.permeance import Permeance

            er, _ = gen.gen_experiments(rrng, c1, rrng.randint(2, 5), False, False)
            k = rrng.randrange(len(er))
            twin = attr.evolve(er[k], permeance=Permeance(value=er[k].permeance.value * rrng.uniform(0.5, 2.0), units=er[k].permeance.units))
            er.insert(rrng.randrange(len(er) + 1), twin)
            memr = Membrane(name="M", ideal_experiments=IdealExperiments(experiments=er))
            plr = _plain(memr, c1)
            cr = {"index": index, "mixture": mdesc, "membrane": gen.describe_membrane(memr), "replicate_of": k}
            try:
                e_got = memr.calculate_activation_energy(c1)
                e_ref = refmodel.regressed_activation_energy([e["T"] for e in plr], [e["value"] for e in plr])
                rep.count("replicate_temperature_membranes")
                rep.check("regressed activation energy", abs(e_got - e_ref) / refmodel.R * (1 / 260 - 1 / 420), 1e-9, cr, {"got": e_got, "ref": e_ref})
            except Exception as e:
                rep.violation("valid membrane query raised", cr, {"error": repr(e)})
        if route == "direct" and rng.random() < 0.3:
            # the same Membrane OBJECT with its experiments replaced in place (a re-measured data set): answers must follow
            # the new experiments exactly like a freshly built membrane
            e1b, _ = gen.gen_experiments(rng, c1, ns[0], stated[0], on_line)
            e2b, _ = gen.gen_experiments(rng, c2, ns[1], stated[1], on_line)
            mem.ideal_experiments = IdealExperiments(experiments=e1b + e2b)
            fresh = Membrane(name="M", ideal_experiments=IdealExperiments(experiments=e1b + e2b))
            for comp in (c1, c2):
                tq = rng.uniform(260, 420)
                try:
                    a, b = mem.get_permeance(tq, comp).value, fresh.get_permeance(tq, comp).value
                    rep.require("a membrane whose experiments were replaced answers like a freshly built one (bitwise)", a == b,
                                {"index": index, "mixture": mdesc, "T": tq, "component": comp.name}, {"edited_object": a, "fresh_object": b})
                    if len([e for e in (e1b + e2b) if e.component.name == comp.name]) >= 2:
                        ea_, eb_ = mem.calculate_activation_energy(comp), fresh.calculate_activation_energy(comp)
                        rep.require("a membrane whose experiments were replaced answers like a freshly built one (bitwise)", ea_ == eb_,
                                    {"index": index, "mixture": mdesc, "component": comp.name, "what": "activation energy"}, {"edited_object": ea_, "fresh_object": eb_})
                except Exception as e:
                    rep.violation("valid membrane query raised", {"index": index, "mixture": mdesc}, {"error": repr(e)})


def finalize(agg, tier):
    out = []
    for o in ("at an experiment temperature: the measured value", "Arrhenius extrapolation from the nearest experiment",
              "regressed activation energy", "on-line data: regression recovers Ea"):
        if agg["oracles"].get(o, {}).get("checked", 0) < 50:
            out.append(f"oracle '{o}' evaluated fewer than 50 times")
    return out


LEVEL_TEXT = (
    "Exploration: the real Membrane.get_permeance / calculate_activation_energy / get_ideal_selectivity / "
    "get_estimated_pure_component_flux are executed on thousands of synthetic membranes (1-6 shuffled, interleaved "
    "experiments per component, stated or regressed activation energies, 3 units) and compared with an independent "
    "15-line reference (own nearest-experiment search, exact-rational least squares) at 1e-9 relative, bit-level at "
    "experiment temperatures. Held means no oracle failed on this run's executions."
)
LEVEL_NOTE = "Trusted: the reference model in pvmon/refmodel.py; exact ties between nearest experiments are excluded as the property states."
TECHNIQUE = "runtime monitoring: independent reference-model oracle on seeded executions of the real Membrane methods"
