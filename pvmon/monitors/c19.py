"""C19 - contradictory or incomplete specifications are rejected at every entry point."""
from .. import gen, guards, proc

PROP = "C19"
LEVEL = "fault_enumeration"
RULE = (
    "the matrix entry point x invalid-specification class is enumerated completely: BOTH permeate conditions (30 % of them with a "
    "stated pressure of exactly 0 kPa) given to each "
    "of the 12 driving-force entry points (inner flux evaluation, flux solver, permeate-composition and separation-factor "
    "helpers, ideal and non-ideal curve, 4 process models, pure-component flux, curve construction from fluxes - directly and through a csv table) under both "
    "activity models; a mixture without interaction parameters; NRTL / UNIQUAC parameters missing (activity coefficients, "
    "partial pressures, flux solver, both helpers, ideal curve, both ideal processes); UNIQUAC constants missing on the first / second component (direct and "
    "through the solver); a curve with neither fluxes nor permeances; activation energy and off-temperature permeance "
    "with a single experiment without stated activation energy. Every cell is executed with K random otherwise-valid "
    "argument sets (quick 40, thorough 600; non-ideal cells K/4), and its control (same arguments, contradiction removed) "
    "must return at least once. non-trivial = every invalid call; distinct = distinct (cell, arguments)"
)
ASSUMPTIONS = [
    "any exception type counts as a rejection except the harness's own BudgetExceeded",
    "a control call may legitimately raise for some arguments (negative driving force); each cell needs one returning control",
]
SHARD_TIMEOUT = {"quick": 1500, "thorough": 14000}


def shards(tier, seed):
    k = {"quick": 40, "thorough": 600}[tier]
    return [{"cells": list(range(i, len(CELLS), 16)), "k": k} for i in range(16)]


def _both(rng, fc):
    """a permeate temperature AND a permeate pressure"""
    pp = rng.uniform(0, 5)
    if rng.random() < 0.3:
        pp = rng.choice([0.0, 0, 1e-300])  # an explicitly stated pressure of 0 kPa is still a stated pressure
    return rng.uniform(150, fc.t_feed - 1), pp


def _fc(rng, model):
    fc = gen.FluxCase(rng, models=(model,), modes=["V"], p_membrane=1.0, edge=0.05)
    fc.precision = gen.loguniform(rng, 1e-5, 1e-3)
    return fc


def _conditions(fc, rng, tp, pp):
    from pyvaporation.conditions import Conditions

    return Conditions(membrane_area=gen.loguniform(rng, 1e-2, 10), initial_feed_temperature=fc.t_feed, initial_feed_amount=gen.loguniform(rng, 1, 100),
                      initial_feed_composition=fc.comp, permeate_temperature=tp, permeate_pressure=pp)


def cell_both(entry, model):
    def build(rng):
        fc = _fc(rng, model)
        tp, pp = _both(rng, fc)
        # the control keeps one of the two conditions
        keep_t = rng.random() < 0.5
        ctl = (tp, None) if keep_t else (None, min(float(pp), 0.5))
        pv, T, x, prec = fc.pv, fc.t_feed, fc.comp, fc.precision
        temperature_form = "scalar"
        if rng.random() < 0.15:
            # the feed temperature handed over as a sequence / array (the released API is scalar; a tree that starts accepting such
            # a form must keep rejecting the contradictory specification on it)
            import numpy

            temperature_form, T = rng.choice([("list", [T]), ("tuple", (T, T + 5.0)), ("array", numpy.array([T, T + 5.0]))])
        if entry == "get_partial_fluxes_from_permeate_composition":
            from pyvaporation.mixtures import Composition

            y = Composition(p=rng.uniform(0.05, 0.95), type="weight")
            mk = lambda t, p: (lambda: pv.get_partial_fluxes_from_permeate_composition(fc.p1, fc.p2, y, x, T, t, p, model))
        elif entry == "calculate_partial_fluxes":
            mk = lambda t, p: (lambda: pv.calculate_partial_fluxes(T, x, prec, t, p, calculation_type=model))
        elif entry == "calculate_permeate_composition":
            mk = lambda t, p: (lambda: pv.calculate_permeate_composition(T, x, prec, t, p, model))
        elif entry == "calculate_separation_factor":
            mk = lambda t, p: (lambda: pv.calculate_separation_factor(T, x, t, p, prec, model))
        elif entry == "ideal_diffusion_curve":
            xs = [x, gen.gen_composition(rng, fc.mix, edge=0.05)]
            mk = lambda t, p: (lambda: pv.ideal_diffusion_curve(T, xs, t, p, prec, model))
        elif entry in ("ideal_isothermal_process", "ideal_non_isothermal_process"):
            mk = lambda t, p: (lambda: getattr(pv, entry)(conditions=_conditions(fc, rng, t, p), number_of_steps=2, delta_hours=1e-6, precision=prec, calculation_type=model))
        elif entry in ("non_ideal_isothermal_process", "non_ideal_non_isothermal_process", "non_ideal_diffusion_curve"):
            cs, _ = gen.gen_curve_set(rng, fc.mix, n_curves=rng.choice([1, 2]))
            o = dict(n_first=0, n_second=0, m_first=0, m_second=0)
            if entry == "non_ideal_diffusion_curve":
                from pyvaporation.mixtures import Composition

                x0 = Composition(p=rng.uniform(0.05, 0.5), type="weight")
                mk = lambda t, p: (lambda: pv.non_ideal_diffusion_curve(diffusion_curve_set=cs, feed_temperature=T, initial_feed_composition=x0,
                                                                        delta_composition=0.02, number_of_steps=2, permeate_temperature=t, permeate_pressure=p,
                                                                        precision=prec, calculation_type=model, **o))
            else:
                mk = lambda t, p: (lambda: getattr(pv, entry)(conditions=_conditions(fc, rng, t, p), diffusion_curve_set=cs, number_of_steps=2, delta_hours=1e-6,
                                                              precision=prec, calculation_type=model, **o))
        elif entry == "get_estimated_pure_component_flux":
            comp = rng.choice([fc.mix.first_component, fc.mix.second_component])
            mk = lambda t, p: (lambda: fc.membrane.get_estimated_pure_component_flux(T, comp, t, p))
        elif entry == "DiffusionCurve(fluxes)":
            from pyvaporation.diffusion_curve import DiffusionCurve

            fl = [(gen.loguniform(rng, 1e-3, 1), gen.loguniform(rng, 1e-3, 1))]
            mk = lambda t, p: (lambda: DiffusionCurve(mixture=fc.mix, membrane_name="M", feed_temperature=T, feed_compositions=[x], partial_fluxes=fl,
                                                      permeate_temperature=t, permeate_pressure=p))
        else:
            raise KeyError(entry)
        return mk(tp, pp), mk(*ctl), dict(fc.describe(), Tp=tp, pp=pp, feed_temperature_given_as=temperature_form)

    return (f"both permeate conditions -> {entry} [{model}]", build, entry.startswith("non_ideal"))


def _strip_mixture(mix, what):
    """a copy of the mixture lacking something"""
    from pyvaporation.components import Component
    from pyvaporation.mixtures import Mixture

    def comp(c, drop):
        return Component(name=c.name, molecular_weight=c.molecular_weight, vapour_pressure_constants=c.vapour_pressure_constants,
                         heat_capacity_constants=c.heat_capacity_constants, uniquac_constants=None if drop else c.uniquac_constants)

    if what == "nrtl":
        return Mixture(name=mix.name, first_component=mix.first_component, second_component=mix.second_component, nrtl_params=None, uniquac_params=mix.uniquac_params)
    if what == "uniquac":
        return Mixture(name=mix.name, first_component=mix.first_component, second_component=mix.second_component, nrtl_params=mix.nrtl_params, uniquac_params=None)
    if what in ("const1", "const2"):
        return Mixture(name=mix.name, first_component=comp(mix.first_component, what == "const1"), second_component=comp(mix.second_component, what == "const2"),
                       nrtl_params=mix.nrtl_params, uniquac_params=mix.uniquac_params)
    raise KeyError(what)


def cell_missing(what, via):
    model = "NRTL" if what == "nrtl" else "UNIQUAC"

    def build(rng):
        from pyvaporation.mixtures import get_partial_pressures
        from pyvaporation.mixtures.mixture import calculate_activity_coefficients
        from pyvaporation.pervaporation import Pervaporation

        fc = _fc(rng, model)
        bad = _strip_mixture(fc.mix, what)
        if rng.random() < 0.2:
            from pyvaporation.mixtures import Composition

            fc.comp = Composition(p=rng.choice([0.0, 1.0]), type=rng.choice(["weight", "molar"]))  # a pure feed is a valid composition
        T, x, prec = fc.t_feed, fc.comp, fc.precision
        if via == "activity coefficients":
            mk = lambda m: (lambda: calculate_activity_coefficients(T, m, x, model))
        elif via == "partial pressures":
            mk = lambda m: (lambda: get_partial_pressures(T, m, x, model))
        elif via == "permeate-composition helper":
            mk = lambda m: (lambda: Pervaporation(fc.membrane, m).calculate_permeate_composition(T, x, prec, None, None, model))
        elif via == "separation-factor helper":
            mk = lambda m: (lambda: Pervaporation(fc.membrane, m).calculate_separation_factor(T, x, None, None, prec, model))
        elif via == "ideal curve":
            mk = lambda m: (lambda: Pervaporation(fc.membrane, m).ideal_diffusion_curve(T, [x], None, None, prec, model))
        elif via == "ideal non-isothermal process":
            mk = lambda m: (lambda: Pervaporation(fc.membrane, m).ideal_non_isothermal_process(conditions=_conditions(fc, rng, None, None), number_of_steps=2, delta_hours=1e-6, precision=prec, calculation_type=model))
        elif via == "flux solver":
            mk = lambda m: (lambda: Pervaporation(fc.membrane, m).calculate_partial_fluxes(T, x, prec, first_component_permeance=fc.p1, second_component_permeance=fc.p2, calculation_type=model))
        else:
            mk = lambda m: (lambda: Pervaporation(fc.membrane, m).ideal_isothermal_process(conditions=_conditions(fc, rng, None, None), number_of_steps=2, delta_hours=1e-6, precision=prec, calculation_type=model))
        return mk(bad), mk(fc.mix), dict(fc.describe(), missing=what)

    label = {"nrtl": "NRTL parameters missing", "uniquac": "UNIQUAC parameters missing", "const1": "UNIQUAC constants of component 1 missing",
             "const2": "UNIQUAC constants of component 2 missing"}[what]
    return (f"{label} -> {via}", build, False)


def cell_no_parameters():
    def build(rng):
        from pyvaporation.mixtures import Mixture

        m = gen.synth_mixture(rng)
        bad = lambda: Mixture(name="x", first_component=m.first_component, second_component=m.second_component)
        ok = lambda: Mixture(name="x", first_component=m.first_component, second_component=m.second_component,
                             nrtl_params=m.nrtl_params if rng.random() < 0.5 else None, uniquac_params=m.uniquac_params)
        return bad, ok, {"mixture": gen.describe_mixture(m)}

    return ("mixture without interaction parameters -> Mixture()", build, False)


def cell_empty_curve():
    def build(rng):
        from pyvaporation.diffusion_curve import DiffusionCurve
        from pyvaporation.permeance import Permeance

        mix, mdesc = gen.gen_mixture(rng)
        xs = [gen.gen_composition(rng, mix, edge=0.05) for _ in range(rng.randint(1, 4))]
        T = rng.uniform(283, 373)
        bad = lambda: DiffusionCurve(mixture=mix, membrane_name="M", feed_temperature=T, feed_compositions=xs)
        ok = lambda: DiffusionCurve(mixture=mix, membrane_name="M", feed_temperature=T, feed_compositions=xs,
                                    permeances=[(Permeance(0.01), Permeance(0.002))] * len(xs))
        return bad, ok, {"mixture": mdesc, "points": len(xs), "T": T}

    return ("curve with neither fluxes nor permeances -> DiffusionCurve()", build, False)


def cell_single_experiment(via):
    def build(rng):
        from pyvaporation.experiments import IdealExperiments
        from pyvaporation.membrane import Membrane

        mix, mdesc = gen.gen_mixture(rng)
        comp = mix.first_component
        e_bad, _ = gen.gen_experiments(rng, comp, 1, stated=False)
        e_ok, _ = gen.gen_experiments(rng, comp, 1, stated=True)
        other, _ = gen.gen_experiments(rng, mix.second_component, 2, stated=False)
        mb = Membrane(name="M", ideal_experiments=IdealExperiments(experiments=e_bad + other))
        mo = Membrane(name="M", ideal_experiments=IdealExperiments(experiments=e_ok + other))
        t = e_bad[0].temperature + rng.choice([-1, 1]) * (rng.uniform(0.5, 40) if rng.random() < 0.6 else gen.loguniform(rng, 1e-6, 0.3))
        t2 = e_ok[0].temperature + rng.choice([-1, 1]) * rng.uniform(0.5, 40)
        if via == "calculate_activation_energy":
            return (lambda: mb.calculate_activation_energy(comp)), (lambda: mo.calculate_activation_energy(comp)), {"mixture": mdesc, "membrane": gen.describe_membrane(mb)}
        return (lambda: mb.get_permeance(t, comp)), (lambda: mo.get_permeance(t2, comp)), {"mixture": mdesc, "membrane": gen.describe_membrane(mb), "T": t}

    return (f"single experiment without activation energy -> {via}", build, False)


def cell_table_route():
    def build(rng):
        import csv
        import os
        import tempfile
        from pathlib import Path

        from pyvaporation.diffusion_curve import DiffusionCurveSet

        name = rng.choice(gen.BUILTIN_MIXTURES)
        t = rng.uniform(283, 373)
        tp, pp = rng.uniform(150, t - 1), rng.choice([0.0, rng.uniform(0, 5)])
        rows = [(rng.uniform(0.05, 0.95), gen.loguniform(rng, 1e-3, 1), gen.loguniform(rng, 1e-3, 1)) for _ in range(rng.randint(1, 4))]

        def load(both):
            d = tempfile.mkdtemp(prefix="pvmon_c19_")
            try:
                path = Path(d) / "set.csv"
                with open(path, "w", newline="") as fh:
                    wr = csv.writer(fh)
                    wr.writerow(["curve_id", "membrane_name", "mixture", "feed_temperature", "permeate_temperature", "permeate_pressure", "composition",
                                 "composition_type", "partial_flux_1", "partial_flux_2", "permeance_1", "permeance_2", "units", "comment"])
                    for w, j1, j2 in rows:
                        wr.writerow(["c1", "M", name, repr(t), repr(tp), repr(pp) if both else "", repr(w), "weight", repr(j1), repr(j2), "", "", "", "x"])
                return DiffusionCurveSet.load(path)
            finally:
                import shutil

                shutil.rmtree(d, ignore_errors=True)

        return (lambda: load(True)), (lambda: load(False)), {"mixture": name, "T": t, "Tp": tp, "pp": pp, "points": len(rows)}

    return ("both permeate conditions -> DiffusionCurveSet.load(csv with fluxes)", build, False)


def cell_membrane_folder():
    """the same contradictory table, reached through Membrane.load(folder): a folder with valid ideal experiments and one
    curve table that states both permeate conditions must not load silently"""
    _, build_table, _ = cell_table_route()

    def build(rng):
        import csv
        import shutil
        import tempfile
        from pathlib import Path

        from pyvaporation.membrane import Membrane

        name = rng.choice(gen.BUILTIN_MIXTURES)
        t = rng.uniform(283, 373)
        tp, pp = rng.uniform(150, t - 1), rng.choice([0.0, rng.uniform(0, 5)])
        rows = [(rng.uniform(0.05, 0.95), gen.loguniform(rng, 1e-3, 1), gen.loguniform(rng, 1e-3, 1)) for _ in range(rng.randint(1, 4))]
        with_experiments = rng.random() < 0.7

        def load(both):
            d = tempfile.mkdtemp(prefix="pvmon_c19_")
            try:
                folder = Path(d) / "M"
                (folder / "diffusion_curve_sets").mkdir(parents=True)
                if with_experiments:
                    with open(folder / "ideal_experiments.csv", "w", newline="") as fh:
                        wr = csv.writer(fh)
                        wr.writerow(["name", "temperature", "component", "activation_energy", "permeance", "units", "comment"])
                        wr.writerow(["w", "323.15", "H2O", "19944", "0.036091", "kg/(m2*h*kPa)", "c"])
                        wr.writerow(["e", "323.15", "EtOH", "110806", "0.0000282", "kg/(m2*h*kPa)", "c"])
                with open(folder / "diffusion_curve_sets" / "set.csv", "w", newline="") as fh:
                    wr = csv.writer(fh)
                    wr.writerow(["curve_id", "membrane_name", "mixture", "feed_temperature", "permeate_temperature", "permeate_pressure", "composition",
                                 "composition_type", "partial_flux_1", "partial_flux_2", "permeance_1", "permeance_2", "units", "comment"])
                    for w, j1, j2 in rows:
                        wr.writerow(["c1", "M", name, repr(t), repr(tp), repr(pp) if both else "", repr(w), "weight", repr(j1), repr(j2), "", "", "", "x"])
                m = Membrane.load(folder)
                return m, None if m.diffusion_curve_sets is None else len(m.diffusion_curve_sets)
            finally:
                shutil.rmtree(d, ignore_errors=True)

        return (lambda: load(True)), (lambda: load(False)), {"mixture": name, "T": t, "Tp": tp, "pp": pp, "points": len(rows), "ideal_experiments_file": with_experiments}

    return ("both permeate conditions -> Membrane.load(folder holding that table)", build, False)


ENTRIES = ["get_partial_fluxes_from_permeate_composition", "calculate_partial_fluxes", "calculate_permeate_composition", "calculate_separation_factor",
           "ideal_diffusion_curve", "non_ideal_diffusion_curve", "ideal_isothermal_process", "ideal_non_isothermal_process",
           "non_ideal_isothermal_process", "non_ideal_non_isothermal_process", "get_estimated_pure_component_flux", "DiffusionCurve(fluxes)"]
CELLS = []
for _e in ENTRIES:
    for _m in ("NRTL", "UNIQUAC"):
        if _e in ("get_estimated_pure_component_flux", "DiffusionCurve(fluxes)") and _m == "UNIQUAC":
            continue  # no activity-model argument
        CELLS.append(cell_both(_e, _m))
CELLS.append(cell_table_route())
CELLS.append(cell_membrane_folder())
CELLS.append(cell_no_parameters())
for _w in ("nrtl", "uniquac", "const1", "const2"):
    for _v in ("activity coefficients", "partial pressures", "flux solver", "permeate-composition helper", "separation-factor helper", "ideal curve",
               "ideal process", "ideal non-isothermal process"):
        CELLS.append(cell_missing(_w, _v))
CELLS.append(cell_empty_curve())
CELLS.append(cell_single_experiment("calculate_activation_energy"))
CELLS.append(cell_single_experiment("get_permeance off-temperature"))


def run_shard(spec, rep):
    only = spec.get("only")
    for ci in spec["cells"]:
        name, build, slow = CELLS[ci]
        k = max(3, spec["k"] // 4) if slow else spec["k"]
        for j in range(k):
            index = ci * 100000 + j
            if only is not None and index != only:
                continue
            rng = gen.case_rng(PROP, spec["seed"], 0, index)
            try:
                bad, ctl, desc = build(rng)
            except Exception as e:
                rep.harness_error(f"C19 build {name}: {e!r}", e)
                continue
            case = {"index": index, "cell": name, "arguments": desc}
            rep.case(case, cls=name)
            try:
                with guards.budget(proc.SOFT_BUDGET):
                    r = bad()
            except guards.BudgetExceeded:
                rep.require(f"rejected: {name}", False, case, {"outcome": "did not return or raise within the budget"})
            except Exception as e:
                rep.require(f"rejected: {name}", True, case)
                rep.count(f"rejection_type {type(e).__name__}")
            else:
                rep.require(f"rejected: {name}", False, case, {"returned": repr(r)[:200]})
            try:
                with guards.budget(proc.SOFT_BUDGET):
                    ctl()
                rep.count(f"control_returned: {name}")
            except (Exception, guards.BudgetExceeded) as e:
                rep.count(f"control_raised: {name}")


def finalize(agg, tier):
    out = []
    for name, _, _ in CELLS:
        if agg["oracles"].get(f"rejected: {name}", {}).get("checked", 0) == 0:
            out.append(f"cell '{name}' never executed")
        if agg["counters"].get(f"control_returned: {name}", 0) == 0:
            out.append(f"control of cell '{name}' never returned (a call that raises for every input would pass)")
    return out


LEVEL_TEXT = (
    "Fault enumeration: the finite matrix (entry point x invalid-specification class, 59 cells incl. the csv-table and membrane-folder routes) is enumerated completely; "
    "every cell is executed with K random otherwise-valid argument sets and must raise each time, while its control (the "
    "same arguments with the contradiction removed) must return at least once. Held means every invalid call of this run "
    "was rejected."
)
LEVEL_NOTE = "The set of entry points and invalid classes is the one listed in the property; arguments within a cell are sampled, not enumerated."
TECHNIQUE = "runtime monitoring: fault injection at the API boundary (invalid specifications) with outcome recording and returning controls"
