"""C09 - flux -> permeance inversion of a diffusion curve undoes the flux calculation."""
import math

from .. import gen, guards, proc
from . import c02

PROP = "C09"
LEVEL = "exploration"
RULE = (
    "case = permeances P (1e-6..1, explicit) -> real flux solver at 1-3 feed compositions (mass or mole fractions, "
    "0.02..0.98) under one permeate condition {vacuum, temperature (precision 1e-12..1e-10), pressure, small pressure, "
    "p = 0} -> real DiffusionCurve built from those fluxes -> reported permeances compared with P; plus curves built from "
    "permeances given in kg/(m2 h kPa), SI or GPU (with and without fluxes) -> units, values, fluxes = P x feed partial "
    "pressure, re-inversion. NRTL only: a DiffusionCurve has no activity-model parameter. non-trivial = a permeate "
    "condition was present and all fluxes positive; distinct = distinct inputs"
)
ASSUMPTIONS = [
    "points with a non-positive flux are skipped and counted (the clamp of Permeance makes inversion meaningless there)",
    "KF-PMODE-BASIS is attributed only when the curve's permeance equals J/(p_feed - p*x(y)) (mole-fraction inversion of the recorded fluxes) AND the original permeance equals J/(p_feed - p*w(y*)) (mass-fraction law at the tapped y*), both to 1e-10; with p = 0 no attribution is possible",
]
EPS = 2.0**-52
SHARD_TIMEOUT = {"quick": 1500, "thorough": 14000}

ANCHORS = [('diffusion_curve/diffusion_curve.py', '* composition.to_molar(self.mixture).first', 'permeate-pressure branch of the curve inversion'), ('diffusion_curve/diffusion_curve.py', 'self.permeate_temperature, self.mixture, composition', 'permeate-temperature branch of the curve inversion')]


def shards(tier, seed):
    n = {"quick": 250, "thorough": 12000}[tier]
    return [{"n": n} for _ in range(16)]


def run_shard(spec, rep):
    only = spec.get("only")
    for index in range(spec["n"]):
        if only is not None and index != only:
            continue
        if rep.n_violations >= 20:
            break
        try:
            one_case(rep, spec, index)
        except Exception as e:
            rep.harness_error(f"C09 case {index}: {e!r}", e)


def one_case(rep, spec, index):
    from pyvaporation.diffusion_curve import DiffusionCurve
    from pyvaporation.mixtures import Composition, get_partial_pressures
    from pyvaporation.permeance import Permeance, Units

    rng = gen.case_rng(PROP, spec["seed"], spec["shard"], index)
    fc = gen.FluxCase(rng, models=("NRTL",), p_membrane=0.0, modes=["V", "T", "T", "P", "P", "Psmall", "P0"], edge=0.02)
    fc.precision = gen.loguniform(rng, 1e-12, 1e-10)
    basis = rng.choice(["weight", "molar"])
    comps = [gen.gen_composition(rng, fc.mix, basis=basis, edge=0.02) for _ in range(rng.randint(1, 3))]
    if rng.random() < 0.15:
        # few keys: a grid temperature and long-lived pooled compositions, shared by different mixtures of equal name
        fc.t_feed = rng.choice(gen.TEMPERATURE_GRID)
        comps = [gen.pooled_composition(rng) for _ in comps]
        if fc.tp is not None:
            fc.tp = min(fc.tp, fc.t_feed - 1.0)
    units = rng.choice(gen.UNITS)
    if len(comps) >= 2 and rng.random() < 0.2:
        comps[-1] = comps[0] if rng.random() < 0.5 else Composition(p=comps[0].p, type=comps[0].type)  # a replicate measurement (another sample at the same feed)
    p1, p2 = fc.p1.value, fc.p2.value
    # every point may have been measured on its own sample: the permeances behind the fluxes differ from point to point
    per_point = [(p1, p2)] + [((p1, p2) if rng.random() < 0.6 else (gen.gen_permeance_value(rng), gen.gen_permeance_value(rng))) for _ in comps[1:]]
    case = dict(fc.describe(), index=index, compositions=[c.p for c in comps], basis=basis, units=units, permeances_per_point=per_point)
    fluxes, ystars = [], []
    for c, (p1, p2) in zip(comps, per_point):
        fc.comp = c
        fc.p1, fc.p2 = Permeance(value=p1), Permeance(value=p2)
        try:
            with guards.budget(proc.SOFT_BUDGET), guards.tap() as taps:
                j = fc.pv.calculate_partial_fluxes(**fc.kwargs())
        except guards.BudgetExceeded:
            rep.case(case, nontrivial=False, cls=f"{fc.mode}|slow")
            return
        except Exception:
            rep.case(case, nontrivial=False, cls=f"{fc.mode}|solver-raised")
            rep.count("solver_raised")
            return
        fluxes.append((float(j[0]), float(j[1])))
        ystars.append(taps[-1][0].p if taps else None)
    positive = all(j[0] > 0 and j[1] > 0 for j in fluxes)
    rep.case(case, nontrivial=(fc.mode != "V" and positive), cls=f"from-fluxes|{fc.mode}|{basis}")
    if not positive:
        rep.count("non_positive_flux_skipped")
    else:
        flavour = index % 7  # rows as tuples (usual), as lists, or the whole table as an array / tuple
        import numpy

        rows = [list(f) for f in fluxes] if flavour == 1 else numpy.array(fluxes) if flavour == 2 else tuple(fluxes) if flavour == 3 else fluxes
        curve = DiffusionCurve(mixture=fc.mix, membrane_name="M", feed_temperature=fc.t_feed, feed_compositions=tuple(comps) if flavour == 3 else comps,
                               partial_fluxes=rows, permeate_temperature=fc.tp, permeate_pressure=fc.pp)
        rep.require("curve permeances are exposed in kg/(m2 h kPa)", all(p[i].units == Units.kg_m2_h_kPa for p in curve.permeances for i in (0, 1)), case)
        for k, c in enumerate(comps):
            fc.comp = c
            p1, p2 = per_point[k]
            fc.p1, fc.p2 = Permeance(value=p1), Permeance(value=p2)
            j = fluxes[k]
            got = (curve.permeances[k][0].value, curve.permeances[k][1].value)
            ck = dict(case, point=k)
            pf = [float(v) for v in get_partial_pressures(fc.t_feed, fc.mix, c, "NRTL")]
            y = j[0] / (j[0] + j[1])
            if fc.mode in ("V", "P0"):
                for i in (0, 1):
                    rep.check("vacuum / p=0: flux -> permeance round trip", abs(got[i] - (p1, p2)[i]), 64 * EPS * (p1, p2)[i], ck, {"got": got, "P": [p1, p2]})
            elif fc.tp is not None:
                # the curve inverts at y_J = J1/(J1+J2), the solver evaluated at y*, |y_J - y*| < precision
                h = 1e-6
                u, _, _ = c02.ref_fluxes(fc, min(1.0, y + h), p1, p2)
                v, _, _ = c02.ref_fluxes(fc, max(0.0, y - h), p1, p2)
                for i in (0, 1):
                    sens = abs(float(u[i]) - float(v[i])) / (2 * h)
                    tol = (p1, p2)[i] * (256 * EPS * (1 + pf[i] * (p1, p2)[i] / j[i]) + 4 * fc.precision * sens / j[i])
                    rep.check("permeate-temperature mode: flux -> permeance round trip", abs(got[i] - (p1, p2)[i]), tol, ck, {"got": got, "P": [p1, p2]})
            else:
                exact = all(abs(got[i] - (p1, p2)[i]) <= (p1, p2)[i] * (256 * EPS * (1 + pf[i] * (p1, p2)[i] / j[i]) + 4 * fc.precision) for i in (0, 1))
                if exact:
                    rep.require("permeate-pressure mode: flux -> permeance round trip", True, ck)
                else:
                    # two-formula signature of KF-PMODE-BASIS
                    m1, m2 = fc.mix.first_component.molecular_weight, fc.mix.second_component.molecular_weight
                    xy = (y / m1) / (y / m1 + (1 - y) / m2)
                    mole_inv = (j[0] / (pf[0] - fc.pp * xy), j[1] / (pf[1] - fc.pp * (1 - xy)))
                    ys = ystars[k]
                    sig = False
                    if ys is not None and fc.pp > 0:
                        mass_law = (j[0] / (pf[0] - fc.pp * ys), j[1] / (pf[1] - fc.pp * (1 - ys)))
                        sig = all(abs(got[i] - max(mole_inv[i], 0.0)) <= 1e-10 * abs(mole_inv[i]) for i in (0, 1)) and \
                            all(abs(mass_law[i] - (p1, p2)[i]) <= 1e-10 * (p1, p2)[i] for i in (0, 1))
                    if sig:
                        rep.oracles.setdefault("permeate-pressure mode round trip (attributed to KF-PMODE-BASIS)", {"checked": 0, "max_ratio": 0.0, "failed": 0})["checked"] += 1
                        rep.known_finding("KF-PMODE-BASIS", "curve inverts with mole-fraction, solver computed with mass-fraction permeate partial pressures", ck)
                        rep.note_max("known_pmode_relative_permeance_error", max(abs(got[i] - (p1, p2)[i]) / (p1, p2)[i] for i in (0, 1)))
                    else:
                        rep.require("permeate-pressure mode: flux -> permeance round trip", False, ck,
                                    {"got": got, "P": [p1, p2], "mole_fraction_inversion": mole_inv, "y_J": y, "y*": ys, "p": fc.pp})
        _table_route(rep, case, rng, fc, comps, curve, DiffusionCurve, get_partial_pressures)
    # ---- curves built from permeances in any unit
    perms = []
    vals = []
    mixed_units = rng.random() < 0.2  # every Permeance object carries its own unit: they need not agree within a curve
    for c in comps:
        a, b = gen.gen_permeance_value(rng), gen.gen_permeance_value(rng)
        vals.append((a, b))
        u1, u2 = (rng.choice(gen.UNITS), rng.choice(gen.UNITS)) if mixed_units else (units, units)
        perms.append((gen.permeance_in_units(a, u1, fc.mix.first_component), gen.permeance_in_units(b, u2, fc.mix.second_component)))
    cp = DiffusionCurve(mixture=fc.mix, membrane_name="M", feed_temperature=fc.t_feed, feed_compositions=comps, permeances=perms,
                        permeate_temperature=fc.tp if rng.random() < 0.5 else None)
    rep.case(dict(case, part="from-permeances", mixed_units=mixed_units), nontrivial=True, cls=f"from-permeances|{'mixed' if mixed_units else units}|{basis}")
    rep.require("curve permeances are exposed in kg/(m2 h kPa)", all(p[i].units == Units.kg_m2_h_kPa for p in cp.permeances for i in (0, 1)), case, {"units": cp.permeances[0][0].units})
    for k, c in enumerate(comps):
        pf = [float(v) for v in get_partial_pressures(fc.t_feed, fc.mix, c, "NRTL")]
        ck = dict(case, point=k, part="from-permeances")
        for i in (0, 1):
            rep.check("curve from permeances: value = converted input", abs(cp.permeances[k][i].value - vals[k][i]), 8 * EPS * vals[k][i], ck,
                      {"got": cp.permeances[k][i].value, "ref": vals[k][i]})
            rep.check("curve from permeances: flux = P x feed partial pressure", abs(float(cp.partial_fluxes[k][i]) - cp.permeances[k][i].value * pf[i]),
                      4 * EPS * vals[k][i] * pf[i], ck, {"got": float(cp.partial_fluxes[k][i])})
    back = DiffusionCurve(mixture=fc.mix, membrane_name="M", feed_temperature=fc.t_feed, feed_compositions=comps,
                          partial_fluxes=[(float(f[0]), float(f[1])) for f in cp.partial_fluxes])
    for k in range(len(comps)):
        for i in (0, 1):
            rep.check("curve from permeances: re-inversion of its fluxes returns the permeances", abs(back.permeances[k][i].value - vals[k][i]), 64 * EPS * vals[k][i],
                      dict(case, point=k), {"got": back.permeances[k][i].value, "ref": vals[k][i]})
    both = DiffusionCurve(mixture=fc.mix, membrane_name="M", feed_temperature=fc.t_feed, feed_compositions=comps, permeances=perms,
                          partial_fluxes=[(float(f[0]), float(f[1])) for f in cp.partial_fluxes])
    rep.require("curve given fluxes AND permeances: permeances exposed in kg/(m2 h kPa)",
                all(p[i].units == Units.kg_m2_h_kPa and abs(p[i].value - vals[k][i]) <= 8 * EPS * vals[k][i] for k, p in enumerate(both.permeances) for i in (0, 1)),
                case, {"units": both.permeances[0][0].units, "value": both.permeances[0][0].value, "ref": vals[0][0]})


def _table_route(rep, case, rng, fc, comps, curve, DiffusionCurve, get_partial_pressures):
    """the table route: the case's curve and a vacuum curve of the same points in ONE hand-made table (fluxes only, blank
    cells where a curve has no permeate condition, either order); every loaded curve must report the permeances of the
    directly constructed one"""
    import csv
    import os
    import tempfile
    from pathlib import Path

    from pyvaporation.diffusion_curve import DiffusionCurveSet
    from pyvaporation.mixtures import Mixtures

    if getattr(Mixtures, str(fc.mix.name), None) is not fc.mix or rng.random() > 0.25:
        return
    vac = DiffusionCurve(mixture=fc.mix, membrane_name="M", feed_temperature=fc.t_feed, feed_compositions=comps,
                         partial_fluxes=[(float(f[0]), float(f[1])) for f in curve.partial_fluxes])
    originals = [curve, vac] if rng.random() < 0.5 else [vac, curve]
    blank_permeances = rng.random() < 0.7
    tmp = tempfile.mkdtemp(prefix="pvmon_c09_")
    try:
        rows, header = [], None
        for cid, c in enumerate(originals, start=1):
            f = os.path.join(tmp, f"c{cid}.csv")
            c.save(f)
            with open(f, newline="") as fh:
                r = list(csv.reader(fh))
            header = r[0]
            for row in r[1:]:
                row[header.index("curve_id")] = str(cid)
                if blank_permeances:
                    for col in ("permeance_1", "permeance_2", "units"):
                        row[header.index(col)] = ""
                rows.append(row)
        table = os.path.join(tmp, "table.csv")
        with open(table, "w", newline="") as fh:
            w = csv.writer(fh)
            w.writerow(header)
            w.writerows(rows)
        loaded = DiffusionCurveSet.load(Path(table)).diffusion_curves
        ck = dict(case, part="table-route", order=["vacuum" if c is vac else "case" for c in originals], blank_permeances=blank_permeances)
        ok = len(loaded) == 2
        det = {}
        if ok:
            for o, l in zip(originals, loaded):
                same_cond = (o.permeate_temperature is None) == (l.permeate_temperature is None) and (o.permeate_pressure is None) == (l.permeate_pressure is None)
                same_perm = all(abs(lp[i].value - op[i].value) <= 1e-9 * abs(op[i].value) for lp, op in zip(l.permeances, o.permeances) for i in (0, 1))
                if not (same_cond and same_perm):
                    ok = False
                    det = {"curve": "vacuum" if o is vac else "case", "loaded_condition": [l.permeate_temperature, l.permeate_pressure],
                           "original_condition": [o.permeate_temperature, o.permeate_pressure],
                           "loaded": [[q.value for q in lp] for lp in l.permeances], "original": [[q.value for q in op] for op in o.permeances]}
                    break
        rep.require("table route: each curve of a mixed-mode table reports the permeances of the directly built curve", ok, ck, det or {"curves": len(loaded)})
    finally:
        import shutil

        shutil.rmtree(tmp, ignore_errors=True)


def finalize(agg, tier):
    out = []
    need = ["vacuum / p=0: flux -> permeance round trip", "permeate-temperature mode: flux -> permeance round trip",
            "curve from permeances: re-inversion of its fluxes returns the permeances", "curve permeances are exposed in kg/(m2 h kPa)"]
    for o in need:
        if agg["oracles"].get(o, {}).get("checked", 0) < 50:
            out.append(f"oracle '{o}' evaluated fewer than 50 times")
    pm = agg["oracles"].get("permeate-pressure mode: flux -> permeance round trip", {}).get("checked", 0) + \
        agg["oracles"].get("permeate-pressure mode round trip (attributed to KF-PMODE-BASIS)", {}).get("checked", 0)
    if pm < 50:
        out.append("permeate-pressure branch of the inversion reached fewer than 50 times")
    return out


LEVEL_TEXT = (
    "Exploration of the round trip permeances -> real flux solver -> real DiffusionCurve -> reported permeances in every "
    "permeate mode (64 ulp in vacuum / p=0, precision x measured sensitivity in temperature mode, exact in pressure mode "
    "unless the two-formula signature of the known finding matches), and of curves built from permeances in all three "
    "units (units, values, fluxes, re-inversion); a quarter of the built-in-mixture cases also goes through the table route (the curve and a "
    "vacuum curve of the same points in one hand-made csv with blank cells, loaded with DiffusionCurveSet.load). Held means no unexplained mismatch on this run's executions."
)
LEVEL_NOTE = "Trusted: the library's get_partial_pressures (C04); the tap on the solver's inner evaluations for y*."
TECHNIQUE = "runtime monitoring: round-trip oracle over recorded solver and curve-construction executions, two-formula signature classifier for the known finding"
