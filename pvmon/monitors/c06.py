"""C06 - results do not depend on which component is called first."""
import math

from .. import gen, guards, proc
from . import c02, c04

PROP = "C06"
LEVEL = "exploration"
RULE = (
    "case = a run of the real code and its relabelled twin (components, interaction parameters, composition p -> 1-p as an "
    "exact floating-point mirror pair, permeances exchanged; membrane experiments follow their component): (T) activity "
    "coefficients and partial pressures, (S) flux solver, permeate-composition / separation-factor helpers, one ideal "
    "curve with its metrics, membrane selectivity, (P) ideal isothermal and non-isothermal processes incl. programmes; all "
    "mixtures, both activity models, all permeate modes. non-trivial = the two components differ (always) and both runs "
    "returned; distinct = distinct inputs"
)
ASSUMPTIONS = [
    "solver/process twins are judged only where the activity model is numerically meaningful: cases with an activity coefficient outside 1e-8..1e8 at the feed or permeate state (shipped UNIQUAC sets reach 1e200 outside their fitted range) or a flux above permeance x feed partial pressure are counted and skipped",
    "process twins whose trajectory runs away (temperature outside 150..600 K or feed mass above twice the initial amount) are counted and skipped: they amplify rounding without bound",
    "twins are judged only where the permeate-composition map is locally contractive (L < 0.9, as in C02): elsewhere the iteration ends at a last-bit-dependent iterate",
    "iterated permeate modes are run with precision 1e-10..1e-8 and compared at rounding level plus 4 x precision x measured flux sensitivity (the two fixed-point iterations may stop one step apart)",
    "UNIQUAC mismatches are attributed to KF-UNIQUAC-GAMMA2 only by signature: thermodynamics - both evaluations equal the known-bad formula (1e-11) and not the correct one; solver/process - the mismatch vanishes when the twin's activity coefficients are taken from the original mixture at the mirrored composition (mirror shim), which is used for classification only",
]
EPS = 2.0**-52
SHARD_TIMEOUT = {"quick": 1500, "thorough": 14000}


def shards(tier, seed):
    nt, ns, npr = {"quick": (600, 300, 100), "thorough": (40000, 12000, 4000)}[tier]
    return [{"n_thermo": nt, "n_solver": ns, "n_process": npr} for _ in range(16)]


def mirror_pair(rng, lo=0.5, hi=0.98):
    """two floats that are exact mirrors: big in [lo, hi), small = 1 - big (exact by Sterbenz)"""
    big = rng.uniform(lo, hi)
    small = 1.0 - big
    return (small, big) if rng.random() < 0.5 else (big, small)


# ------------------------------------------------------------------------------------------------ mirror shim
class MirrorShim:
    """classification aid: while active, activity coefficients of the twin mixture are obtained from the original
    mixture at the mirrored composition and swapped.  If a UNIQUAC mismatch vanishes under the shim, the asymmetry of the
    activity model (KF-UNIQUAC-GAMMA2) explains it completely."""

    def __init__(self, original, twin):
        self.original, self.twin = original, twin

    def __enter__(self):
        import pyvaporation.mixtures.mixture as mm
        from pyvaporation.mixtures import Composition

        self.mm = mm
        self.orig_fn = mm.calculate_activity_coefficients
        orig_fn, original, twin = self.orig_fn, self.original, self.twin

        def shim(temperature, mixture, composition, calculation_type="NRTL"):
            if mixture is twin:
                if composition.type == "weight":
                    composition = composition.to_molar(mixture=mixture)
                mirrored = Composition(p=composition.second, type="molar")
                g = orig_fn(temperature=temperature, mixture=original, composition=mirrored, calculation_type=calculation_type)
                return g[1], g[0]
            return orig_fn(temperature=temperature, mixture=mixture, composition=composition, calculation_type=calculation_type)

        mm.calculate_activity_coefficients = shim
        return self

    def __exit__(self, *a):
        self.mm.calculate_activity_coefficients = self.orig_fn


# ------------------------------------------------------------------------------------------------ thermodynamics
def thermo_case(rep, spec, index):
    from pyvaporation.mixtures import Composition, get_partial_pressures
    from pyvaporation.mixtures.mixture import calculate_activity_coefficients

    rng = gen.case_rng(PROP + "T", spec["seed"], spec["shard"], index)
    mix, mdesc = gen.gen_mixture(rng, 0.5)
    model = rng.choice(["NRTL", "UNIQUAC"])
    twin = gen.swap_mixture(mix)
    T = rng.uniform(273, 400)
    p, q = mirror_pair(rng, 0.5, 0.9999)
    basis = rng.choice(["molar", "weight"])
    case = {"index": index, "level": "thermo", "mixture": mdesc, "model": model, "T": T, "p": p, "basis": basis}
    rep.case(case, cls=f"thermo|{model}|{basis}")
    c, ct = Composition(p=p, type=basis), Composition(p=q, type=basis)
    g = [float(v) for v in calculate_activity_coefficients(T, mix, c, model)]
    gt = [float(v) for v in calculate_activity_coefficients(T, twin, ct, model)]
    pp = [float(v) for v in get_partial_pressures(T, mix, c, model)]
    ppt = [float(v) for v in get_partial_pressures(T, twin, ct, model)]
    if not all(math.isfinite(v) for v in g + gt):
        rep.count("thermo_nonfinite_skipped")
        return
    # mass-fraction input goes through to_molar on both sides: x and x' are mirrors only up to rounding / min(x,1-x)
    xm = c.to_molar(mix).p
    cond = 1.0 if basis == "molar" else 1 + 1 / min(xm, 1 - xm)
    res_g = max(abs(g[0] - gt[1]) / (g[0] * (1 + abs(math.log(g[0])))), abs(g[1] - gt[0]) / (g[1] * (1 + abs(math.log(g[1])))))
    res_p = max(abs(pp[0] - ppt[1]) / max(abs(pp[0]), 1e-300) / (1 + abs(math.log(g[0]))),
                abs(pp[1] - ppt[0]) / max(abs(pp[1]), 1e-300) / (1 + abs(math.log(g[1]))))
    # sensitivity of ln(gamma) to the composition, measured on the real function (for the weight basis only)
    tol = (256 if model == "NRTL" else 8192) * EPS * cond  # the UNIQUAC expression cancels large terms (z up to 473 in the shipped sets)
    if basis == "weight":
        h = 1e-7 * min(xm, 1 - xm)
        ga = calculate_activity_coefficients(T, mix, Composition(p=xm + h, type="molar"), model)
        gb = calculate_activity_coefficients(T, mix, Composition(p=xm - h, type="molar"), model)
        sens = max(abs(math.log(float(ga[i]) / float(gb[i]))) / (2 * h) for i in (0, 1))
        tol *= 1 + sens * min(xm, 1 - xm)
    if model == "UNIQUAC" and max(res_g, res_p) > tol:
        xt = ct.to_molar(twin).p
        a = c04.classify_uniquac(mix, T, xm, g)
        b = c04.classify_uniquac(twin, T, xt, gt)
        if a[0] and b[0] and not (a[1] and b[1]):
            rep.oracles.setdefault("relabelled activity coefficients (UNIQUAC, attributed to KF-UNIQUAC-GAMMA2)", {"checked": 0, "max_ratio": 0.0, "failed": 0})["checked"] += 1
            rep.known_finding("KF-UNIQUAC-GAMMA2", "relabelled UNIQUAC activity coefficients are not mirrored; both evaluations equal the known-bad formula", case)
            rep.note_max("known_uniquac_relabel_relative_mismatch", res_g)
            return
    rep.check(f"relabelled activity coefficients are mirrored ({model})", res_g, tol, case, {"gamma": g, "twin": gt})
    rep.check(f"relabelled partial pressures are mirrored ({model})", res_p, tol, case, {"p": pp, "twin": ppt})


# ------------------------------------------------------------------------------------------------ solver level
def solver_case(rep, spec, index):
    from pyvaporation.mixtures import Composition
    from pyvaporation.permeance import Permeance
    from pyvaporation.pervaporation import Pervaporation

    rng = gen.case_rng(PROP + "S", spec["seed"], spec["shard"], index)
    fc = gen.FluxCase(rng, p_membrane=0.3, modes=["V", "T", "T", "Tnear", "P", "Psmall", "P0"], edge=0.02)
    p, q = mirror_pair(rng)
    basis = rng.choice(["molar", "weight"])
    fc.comp = Composition(p=p, type=basis)
    fc.precision = gen.loguniform(rng, 1e-10, 1e-8)
    try:
        fc.tp, fc.pp = gen.gen_permeate(rng, fc.mode, fc.mix, fc.t_feed, fc.comp, fc.model)
    except Exception:
        fc.mode, fc.tp, fc.pp = "V", None, None
    twin_mix = gen.swap_mixture(fc.mix)
    pvt = Pervaporation(fc.membrane, twin_mix)
    ct = Composition(p=q, type=basis)
    case = dict(fc.describe(), index=index, level="solver")

    one_only = None
    if not fc.from_membrane and rng.random() < 0.12:
        one_only = rng.choice(["first", "second"])  # a permeance stated for ONE component only (the other from the membrane)
        case["only_permeance_supplied_for"] = one_only
        fc.p1 = fc.membrane.get_permeance(fc.t_feed, fc.mix.first_component)
        fc.p2 = fc.membrane.get_permeance(fc.t_feed, fc.mix.second_component)

    def run_pair(shim=False):
        kw = fc.kwargs()
        kwt = dict(kw, composition=ct)
        if "first_component_permeance" in kw:
            kwt["first_component_permeance"], kwt["second_component_permeance"] = kw["second_component_permeance"], kw["first_component_permeance"]
        if one_only is not None:
            from pyvaporation.permeance import Permeance

            stated = Permeance(value=0.5 * (fc.p1.value if one_only == "first" else fc.p2.value) + 1e-7)
            kw = {k: v for k, v in kw.items() if not k.endswith("_component_permeance")}
            kwt = dict(kw, composition=ct)
            kw[one_only + "_component_permeance"] = stated
            kwt[("second" if one_only == "first" else "first") + "_component_permeance"] = stated
        out = {}
        with guards.budget(proc.SOFT_BUDGET):
            j = fc.pv.calculate_partial_fluxes(**kw)
            out["flux"] = (float(j[0]), float(j[1]))
            ctx = MirrorShim(fc.mix, twin_mix) if shim else _Null()
            with ctx:
                jt = pvt.calculate_partial_fluxes(**kwt)
                out["flux_twin"] = (float(jt[0]), float(jt[1]))
                args = (fc.t_feed, ct, fc.precision, fc.tp, fc.pp, fc.model)
                yt = pvt.calculate_permeate_composition(*args)
                sft = pvt.calculate_separation_factor(fc.t_feed, ct, fc.tp, fc.pp, fc.precision, fc.model)
                curve_t = pvt.ideal_diffusion_curve(fc.t_feed, [ct], fc.tp, fc.pp, fc.precision, fc.model)
            y = fc.pv.calculate_permeate_composition(fc.t_feed, fc.comp, fc.precision, fc.tp, fc.pp, fc.model)
            sf = fc.pv.calculate_separation_factor(fc.t_feed, fc.comp, fc.tp, fc.pp, fc.precision, fc.model)
            curve = fc.pv.ideal_diffusion_curve(fc.t_feed, [fc.comp], fc.tp, fc.pp, fc.precision, fc.model)
        out.update(y=y.p, y_twin=yt.p, sf=float(sf), sf_twin=float(sft), curve=curve, curve_twin=curve_t)
        return out

    try:
        r = run_pair()
    except guards.BudgetExceeded:
        rep.case(case, nontrivial=False, cls=f"solver|{fc.model}|{fc.mode}")
        rep.count("solver_slow")
        return
    except Exception as e:
        rep.case(case, nontrivial=False, cls=f"solver|{fc.model}|{fc.mode}")
        rep.count("solver_raised_" + type(e).__name__)
        return
    sane = sane_gamma(fc.mix, fc.model, fc.t_feed, fc.comp)
    if sane and fc.tp is not None and 0 <= r["y"] <= 1:
        sane = sane_gamma(fc.mix, fc.model, fc.tp, Composition(p=r["y"], type="weight"))
    if not sane or not physically_bounded(fc, r["flux"]):
        # overflow of the activity model at the permeate temperature: the "permeate pressure" is negative or not finite,
        # both runs are numerical noise there and mirror symmetry cannot be judged
        rep.case(case, nontrivial=False, cls=f"solver|{fc.model}|{fc.mode}")
        rep.count("solver_numerical_breakdown_skipped")
        return
    if fc.mode not in ("V", "P0") and 0 <= r["y"] <= 1 and not (c02.lipschitz(fc, r["y"], fc.p1.value, fc.p2.value, fc.precision) < 0.9):
        rep.case(case, nontrivial=False, cls=f"solver|{fc.model}|{fc.mode}")
        rep.count("solver_non_contractive_map_skipped")
        return
    rep.case(case, cls=f"solver|{fc.model}|{fc.mode}" + ("|membrane" if fc.from_membrane else ""))
    problems = solver_mismatch(fc, r, basis)
    if problems and fc.model == "UNIQUAC":
        try:
            r2 = run_pair(shim=True)
            if not solver_mismatch(fc, r2, basis):
                rep.oracles.setdefault("relabelled solver results (UNIQUAC, attributed to KF-UNIQUAC-GAMMA2)", {"checked": 0, "max_ratio": 0.0, "failed": 0})["checked"] += 1
                rep.known_finding("KF-UNIQUAC-GAMMA2", "relabelled UNIQUAC flux-solver results are not mirrored; the mismatch vanishes under the mirror shim", case)
                return
        except (Exception, guards.BudgetExceeded):
            pass
    name = f"relabelled fluxes / helpers / curve metrics are mirrored ({fc.model})"
    o = rep.oracles.setdefault(name, {"checked": 0, "max_ratio": 0.0, "failed": 0})
    if problems:
        rep.require(name, False, case, problems[0])
    else:
        rep.require(name, True, case)
    if str(fc.model) == "NRTL" and index % 4 == 0:
        _endpoint_curves(rep, case, fc, pvt, rng)
    # membrane selectivity inverts
    t = fc.t_feed
    c1, c2 = fc.mix.first_component, fc.mix.second_component
    for kind in ("molar", "weight"):
        s, st = fc.membrane.get_ideal_selectivity(t, c1, c2, kind), fc.membrane.get_ideal_selectivity(t, c2, c1, kind)
        rep.check("membrane selectivity inverts", abs(s * st - 1), 16 * EPS, case, {"s": float(s), "twin": float(st), "kind": kind})


def _endpoint_curves(rep, case, fc, pvt, rng):
    """an ideal curve over the FULL composition range under vacuum, pure feeds included (x = 0 and x = 1 exactly), and its
    relabelled twin: fluxes and permeances are mirrored point by point; where one side reports nan (0/0 for the absent
    component) the other must do so as well"""
    from pyvaporation.mixtures import Composition

    q = rng.uniform(0.1, 0.9)
    xs = [0.0, q, 1.0]
    try:
        with guards.budget(proc.SOFT_BUDGET):
            a = fc.pv.ideal_diffusion_curve(fc.t_feed, [Composition(p=x, type="weight") for x in xs], None, None, fc.precision, fc.model)
            b = pvt.ideal_diffusion_curve(fc.t_feed, [Composition(p=1.0 - x, type="weight") for x in xs], None, None, fc.precision, fc.model)
    except (Exception, guards.BudgetExceeded) as e:
        rep.count("endpoint_curve_not_built_" + type(e).__name__)
        return

    def same(u, v):
        u, v = float(u), float(v)
        if math.isnan(u) or math.isnan(v):
            return math.isnan(u) and math.isnan(v)
        return abs(u - v) <= 1e-9 * max(abs(u), abs(v))

    bad = None
    for k, x in enumerate(xs):
        for i in (0, 1):
            if not same(a.partial_fluxes[k][i], b.partial_fluxes[k][1 - i]):
                bad = {"what": "flux", "x": x, "component": i, "orig": float(a.partial_fluxes[k][i]), "twin": float(b.partial_fluxes[k][1 - i])}
            elif not same(a.permeances[k][i].value, b.permeances[k][1 - i].value):
                bad = {"what": "permeance", "x": x, "component": i, "orig": float(a.permeances[k][i].value), "twin": float(b.permeances[k][1 - i].value)}
    rep.require("full-range vacuum curve (pure feeds included) is mirrored point by point (NRTL)", bad is None, dict(case, curve_points=xs), bad)


def sane_gamma(mix, model, T, comp):
    """the activity model is numerically meaningful at this state (shipped UNIQUAC parameter sets give gamma ~ 1e200
    a few tens of K outside the range they were fitted in; mirror symmetry of such numbers cannot be judged)"""
    from pyvaporation.mixtures.mixture import calculate_activity_coefficients

    try:
        g = calculate_activity_coefficients(T, mix, comp, model)
    except Exception:
        return False
    return all(math.isfinite(float(v)) and 1e-8 < float(v) < 1e8 for v in g)


def physically_bounded(fc, j):
    """a flux can never exceed permeance x feed partial pressure (the permeate-side pressure is >= 0)"""
    from pyvaporation.mixtures import get_partial_pressures

    pf = get_partial_pressures(fc.t_feed, fc.mix, fc.comp, fc.model)
    return all(math.isfinite(j[i]) and j[i] <= (fc.p1.value, fc.p2.value)[i] * float(pf[i]) * (1 + 1e-9) for i in (0, 1))


class _Null:
    def __enter__(self):
        return self

    def __exit__(self, *a):
        return False


def solver_mismatch(fc, r, basis):
    """-> list of problems (empty when the twin mirrors the original within tolerance)"""
    problems = []
    p1, p2 = fc.p1.value, fc.p2.value
    j, jt = r["flux"], r["flux_twin"]
    y = j[0] / (j[0] + j[1])
    ref, pf, perm = c02.ref_fluxes(fc, min(1.0, max(0.0, y)), p1, p2)
    xm = fc.comp.to_molar(fc.mix).p
    cond = 1.0 if basis == "molar" else 1 + 1 / min(xm, 1 - xm)
    sens = [0.0, 0.0]
    if fc.mode not in ("V", "P0"):
        h = 1e-6
        try:
            a, _, _ = c02.ref_fluxes(fc, min(1.0, y + h), p1, p2)
            b, _, _ = c02.ref_fluxes(fc, max(0.0, y - h), p1, p2)
            sens = [abs(float(a[i]) - float(b[i])) / (2 * h) for i in (0, 1)]
        except Exception:
            sens = [abs(j[0]) + abs(j[1])] * 2
    tol = [4096 * EPS * cond * (p1, p2)[i] * max(abs(float(pf[i])), abs(float(perm[i]))) * (1 + abs(math.log(max(1e-300, abs(float(pf[i])))))) + 4 * fc.precision * sens[i]
           for i in (0, 1)]
    if abs(j[0] - jt[1]) > tol[0] or abs(j[1] - jt[0]) > tol[1]:
        problems.append({"what": "fluxes", "orig": j, "twin": jt, "tol": tol})
    ytol = 64 * EPS * cond + 4 * fc.precision
    if abs(r["y"] - (1 - r["y_twin"])) > ytol:
        problems.append({"what": "permeate composition", "orig": r["y"], "twin": r["y_twin"], "tol": ytol})
    # separation factors invert: sf * sf' = 1 (conditioning 1/min(y,1-y))
    yy = min(max(r["y"], 1e-300), 1 - 1e-16)
    stol = (256 * EPS * cond + 8 * fc.precision) * (1 + 1 / min(yy, 1 - yy) + 1 / min(xm, 1 - xm))
    if math.isfinite(r["sf"]) and math.isfinite(r["sf_twin"]) and r["sf"] != 0:
        if abs(r["sf"] * r["sf_twin"] - 1) > stol:
            problems.append({"what": "separation factor helper", "sf": r["sf"], "twin": r["sf_twin"], "tol": stol})
    c, ctw = r["curve"], r["curve_twin"]
    try:
        s, s2 = c.get_separation_factor[0], ctw.get_separation_factor[0]
        if math.isfinite(s) and math.isfinite(s2) and abs(s * s2 - 1) > stol:
            problems.append({"what": "curve separation factor", "sf": float(s), "twin": float(s2), "tol": stol})
        a, b = c.get_selectivity[0], ctw.get_selectivity[0]
        if math.isfinite(a) and math.isfinite(b) and abs(a * b - 1) > stol:
            problems.append({"what": "curve selectivity", "sel": float(a), "twin": float(b), "tol": stol})
    except ZeroDivisionError:
        pass
    pc, pct = c.permeances[0], ctw.permeances[0]
    for i in (0, 1):
        u, v = pc[i].value, pct[1 - i].value
        ptol = (4096 * EPS * cond + 8 * fc.precision * (1 + sens[i] / max(abs(j[i]), 1e-300))) * max(abs(u), abs(v)) * (1 + abs(math.log(max(1e-300, abs(float(pf[i]))))))
        if abs(u - v) > ptol and j[i] > 0:
            problems.append({"what": "curve permeances", "orig": u, "twin": v, "tol": ptol})
    return problems


# ------------------------------------------------------------------------------------------------ process level
def process_case(rep, spec, index):
    from pyvaporation.conditions import Conditions
    from pyvaporation.mixtures import Composition
    from pyvaporation.pervaporation import Pervaporation

    rng = gen.case_rng(PROP + "P", spec["seed"], spec["shard"], index)
    sc = proc.Scenario(rng, kinds=proc.KINDS[:2], max_steps=12)
    p, q = mirror_pair(rng)
    sc.x0 = Composition(p=p, type=sc.x0.type)
    sc.conditions.initial_feed_composition = sc.x0
    sc.precision = gen.loguniform(rng, 1e-10, 1e-8)
    twin_mix = gen.swap_mixture(sc.mix)
    pvt = Pervaporation(sc.membrane, twin_mix)
    c = sc.conditions
    cond_t = Conditions(membrane_area=c.membrane_area, initial_feed_temperature=c.initial_feed_temperature,
                        initial_feed_amount=c.initial_feed_amount, initial_feed_composition=Composition(p=q, type=sc.x0.type),
                        permeate_temperature=c.permeate_temperature, permeate_pressure=c.permeate_pressure,
                        temperature_program=c.temperature_program)
    case = dict(sc.describe(), index=index, level="process")
    st, model = sc.run()
    if st != "ok":
        rep.case(case, nontrivial=False, cls="process|" + sc.cls())
        rep.count("process_" + st)
        return

    def twin_run(shim):
        ctx = MirrorShim(sc.mix, twin_mix) if shim else _Null()
        with ctx:
            return sc.run(pv=pvt, conditions=cond_t)

    from pyvaporation.mixtures import get_partial_pressures

    if proc.runaway(model, sc.m0):
        rep.case(case, nontrivial=False, cls="process|" + sc.cls())
        rep.count("process_runaway_trajectory_skipped")
        return
    if proc.non_contractive(sc, model):
        rep.case(case, nontrivial=False, cls="process|" + sc.cls())
        rep.count("process_non_contractive_map_skipped")
        return
    for k in range(len(model.time)):
        pf = get_partial_pressures(model.feed_temperature[k], sc.mix, model.feed_compositions[k], sc.model)
        sane = sane_gamma(sc.mix, sc.model, model.feed_temperature[k], model.feed_compositions[k])
        if sane and sc.tp is not None:
            sane = sane_gamma(sc.mix, sc.model, sc.tp, model.permeate_composition[k])
        if not sane or not all(float(model.partial_fluxes[k][i]) <= model.permeances[k][i].value * float(pf[i]) * (1 + 1e-9) for i in (0, 1)):
            rep.case(case, nontrivial=False, cls="process|" + sc.cls())
            rep.count("process_numerical_breakdown_skipped")
            return
    # a component that runs out: judged up to the last state before that (see proc.exhaustion_step)
    upto = proc.exhaustion_step(model, sc.area, sc.dt)
    if upto is not None:
        rep.count("process_judged_up_to_the_exhaustion_of_a_component")
    st2, tw = twin_run(False)
    rep.case(case, nontrivial=st2 == "ok", cls="process|" + sc.cls())
    if st2 == "raised" and upto is not None:
        rep.count("process_twin_raised_at_the_exhaustion_boundary_not_judged")
        return
    if st2 != "ok":
        if sc.model == "UNIQUAC":
            st3, tw3 = twin_run(True)
            if st3 == "ok":
                rep.known_finding("KF-UNIQUAC-GAMMA2", "relabelled UNIQUAC process twin ends differently; under the mirror shim it returns like the original", case)
                return
        rep.require("relabelled process twin has the same outcome", st2 == "slow", case, {"twin": st2, "error": repr(tw)})
        return
    prob = process_mismatch(sc, model, tw, upto=upto)
    name = f"relabelled ideal process is mirrored ({sc.model})"
    if prob and sc.model == "UNIQUAC":
        st3, tw3 = twin_run(True)
        if st3 == "ok" and not process_mismatch(sc, model, tw3, upto=upto):
            rep.oracles.setdefault("relabelled process (UNIQUAC, attributed to KF-UNIQUAC-GAMMA2)", {"checked": 0, "max_ratio": 0.0, "failed": 0})["checked"] += 1
            rep.known_finding("KF-UNIQUAC-GAMMA2", "relabelled UNIQUAC process is not mirrored; the mismatch vanishes under the mirror shim", case)
            return
    rep.require(name, prob is None, case, prob)


def process_mismatch(sc, a, b, rel=1e-6, upto=None):
    n = len(a.time)
    if len(b.time) != n:
        return {"what": "length", "a": n, "b": len(b.time)}
    if upto is not None:
        n = min(n, upto)
    # twin trajectories drift apart at rounding level and the drift is amplified from step to step (a self-cooling run loses
    # 100 K over 360 steps): the first 60 steps are judged, with a tolerance that grows with the step index
    n = min(n, 60)
    step = [0]

    def close(u, v, scale):
        return abs(u - v) <= rel * max(1.0, (step[0] + 1) / 10) * scale

    xm = sc.x0.to_molar(sc.mix).p if sc.x0.type == "weight" else sc.x0.p
    for k in range(n):
        step[0] = k
        ja, jb = a.partial_fluxes[k], b.partial_fluxes[k]
        js = max(abs(float(ja[0])), abs(float(ja[1])))
        checks = [
            ("feed_mass", a.feed_mass[k], b.feed_mass[k], abs(a.feed_mass[0])),
            ("feed_temperature", a.feed_temperature[k], b.feed_temperature[k], abs(a.feed_temperature[k])),
            ("feed composition", a.feed_compositions[k].p, 1 - b.feed_compositions[k].p, 1.0),
            ("permeate composition", a.permeate_composition[k].p, 1 - b.permeate_composition[k].p, 1.0),
            ("flux 1<->2", float(ja[0]), float(jb[1]), js),
            ("flux 2<->1", float(ja[1]), float(jb[0]), js),
            ("permeance 1<->2", a.permeances[k][0].value, b.permeances[k][1].value, abs(a.permeances[k][0].value)),
            ("permeance 2<->1", a.permeances[k][1].value, b.permeances[k][0].value, abs(a.permeances[k][1].value)),
            ("evaporation heat", a.feed_evaporation_heat[k], b.feed_evaporation_heat[k], abs(a.feed_evaporation_heat[k])),
        ]
        qa, qb = a.permeate_condensation_heat[k], b.permeate_condensation_heat[k]
        if (qa is None) != (qb is None):
            return {"what": "condensation heat presence", "step": k}
        if qa is not None:
            checks.append(("condensation heat", qa, qb, abs(qa)))
        for what, u, v, scale in checks:
            if not close(u, v, scale):
                return {"what": what, "step": k, "orig": float(u), "twin": float(v)}
    try:
        sa, sb = a.get_separation_factor, b.get_separation_factor
        la, lb = a.get_selectivity, b.get_selectivity
    except ZeroDivisionError:
        return None
    for k in range(n):
        y = a.permeate_composition[k].p
        w = a.feed_compositions[k].p
        if 0 < y < 1 and 0 < w < 1:
            stol = 4 * rel * (1 + 1 / min(y, 1 - y) + 1 / min(w, 1 - w))
            if math.isfinite(sa[k]) and math.isfinite(sb[k]) and sa[k] != 0 and sb[k] != 0 and abs(sa[k] * sb[k] - 1) > stol:
                return {"what": "separation factor does not invert", "step": k, "sf": float(sa[k]), "twin": float(sb[k])}
        if math.isfinite(la[k]) and math.isfinite(lb[k]) and abs(la[k] * lb[k] - 1) > 4 * rel:
            return {"what": "selectivity does not invert", "step": k, "sel": float(la[k]), "twin": float(lb[k])}
    return None


def run_shard(spec, rep):
    only = spec.get("only")
    plan = [(i, thermo_case) for i in range(spec["n_thermo"])]
    plan += [(100000 + i, solver_case) for i in range(spec["n_solver"])]
    plan += [(200000 + i, process_case) for i in range(spec["n_process"])]
    for index, fn in plan:
        if only is not None and index != only:
            continue
        if rep.n_violations >= 20:
            break
        try:
            fn(rep, spec, index)
        except Exception as e:
            rep.harness_error(f"C06 case {index}: {e!r}", e)


def finalize(agg, tier):
    out = []
    need = ["relabelled activity coefficients are mirrored (NRTL)", "relabelled fluxes / helpers / curve metrics are mirrored (NRTL)",
            "relabelled ideal process is mirrored (NRTL)", "membrane selectivity inverts"]
    for o in need:
        if agg["oracles"].get(o, {}).get("checked", 0) < 30:
            out.append(f"oracle '{o}' evaluated fewer than 30 times")
    return out


LEVEL_TEXT = (
    "Exploration with relabelling twins: every case runs the real code twice - as given and with the two components (and "
    "everything attached to them) exchanged, the compositions being exact floating-point mirrors - and compares activity "
    "coefficients, partial pressures, fluxes, helper results, curve metrics, membrane selectivity and complete ideal "
    "process trajectories with roles exchanged. NRTL results must mirror; UNIQUAC mismatches are reported as the known "
    "finding only when the executable signature matches (known-bad formula at both evaluations / mismatch vanishes under "
    "the mirror shim), otherwise as violations."
)
LEVEL_NOTE = "Process trajectories are compared at 1e-6 relative (accumulated rounding over <= 12 steps with precision <= 1e-8); the mirror shim is used only to classify, never to pass NRTL."
TECHNIQUE = "runtime monitoring: offline relational checker over recorded twin executions (component relabelling), signature-based known-finding classifier (mirror shim)"
