import argparse
import os
import sys

from . import runner


def main(argv=None):
    ap = argparse.ArgumentParser(prog="check")
    ap.add_argument("property", nargs="?")
    ap.add_argument("--tier", default=os.environ.get("VERIF_TIER", "quick"), choices=["quick", "thorough"])
    ap.add_argument("--seed", type=int, default=None)
    ap.add_argument("--replay")
    ap.add_argument("--workers", type=int)
    ap.add_argument("--shard", type=int, help="run a single shard (debugging)")
    a = ap.parse_args(argv)
    if a.replay:
        return runner.replay(a.replay)
    if not a.property:
        ap.error("property id required")
    seed = a.seed if a.seed is not None else int(os.environ.get("VERIF_SEED", "0") or 0)
    return runner.run_check(a.property.upper(), a.tier, seed, a.workers, a.shard)


if __name__ == "__main__":
    sys.exit(main())
