"""Locating the repository under test, offline dependencies, determinism.

Everything here runs in the *worker* interpreters (fresh process per shard), so that
"rebuild from /repo's current working tree" is simply a fresh import of the sources
that are on disk at that moment.
"""
import os
import subprocess
import sys
from pathlib import Path

VERIF = Path(__file__).resolve().parent.parent
DEPS = VERIF / ".deps"
PYTHON = "/venv/bin/python"
WHEELS = "/opt/veriftools/wheels"


def repo_root() -> Path:
    return Path(os.environ.get("PVMON_REPO", "/repo")).resolve()


def ensure_deps() -> None:
    """icontract/deal live in a git-ignored directory; restores contain committed files
    only, so every check re-creates it when missing (offline wheelhouse)."""
    if (DEPS / "icontract").is_dir():
        return
    lock = VERIF / ".deps.lock"
    import fcntl

    with open(lock, "w") as fh:
        fcntl.flock(fh, fcntl.LOCK_EX)
        if (DEPS / "icontract").is_dir():
            return
        subprocess.run(
            [PYTHON, "-m", "pip", "install", "-q", "--no-index", "--find-links", WHEELS,
             "--target", str(DEPS), "icontract", "deal"],
            check=True, stdout=subprocess.DEVNULL, stderr=subprocess.DEVNULL,
        )


def worker_env() -> dict:
    env = dict(os.environ)
    env["PYTHONPATH"] = os.pathsep.join([str(VERIF), str(DEPS), str(repo_root())])
    env["OMP_NUM_THREADS"] = "1"
    env["OPENBLAS_NUM_THREADS"] = "1"
    env["MKL_NUM_THREADS"] = "1"
    env["PYTHONHASHSEED"] = "0"
    env["MPLBACKEND"] = "Agg"
    env["PYTHONDONTWRITEBYTECODE"] = "1"
    env.setdefault("PVMON_REPO", str(repo_root()))
    return env


class NotUnderTest(RuntimeError):
    pass


def import_repo():
    """Import pyvaporation and make sure it is the tree under test."""
    root = repo_root()
    if str(root) not in sys.path:
        sys.path.insert(0, str(root))
    import warnings

    warnings.filterwarnings("ignore")
    import numpy

    numpy.seterr(all="ignore")
    import pyvaporation  # noqa

    where = Path(pyvaporation.__file__).resolve()
    if root not in where.parents:
        raise NotUnderTest(f"pyvaporation imported from {where}, expected under {root}")
    return pyvaporation
