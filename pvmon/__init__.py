"""pvmon - runtime monitors for PyVaporation (see /verif/DESIGN.md)."""
