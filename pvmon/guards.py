"""Online guards that are active in every worker.

* evaluation budget: counts driving-force evaluations
  (`Pervaporation.get_partial_fluxes_from_permeate_composition`) per flux calculation;
* line budget: `sys.monitoring` LINE events on every code object defined in
  pyvaporation/pervaporation/*.py (enabled lazily at the first PY_START of each code
  object), so a loop that is refactored away from the helper is still bounded;
* line coverage of the library (LINE events that DISABLE themselves after the first hit).

Exceeding a budget raises `BudgetExceeded`, which derives from BaseException so that no
`except Exception` in the library or in scipy can swallow it.
"""
import contextlib
import functools
import os
import sys

HARD_EVALS = 250_000  # C10's bound B
LINES_PER_EVAL = 60  # generous: the pinned loop executes ~25 line events per iteration


class BudgetExceeded(BaseException):
    def __init__(self, kind, count, limit):
        super().__init__(f"{kind} budget exceeded: {count} > {limit}")
        self.kind, self.count, self.limit = kind, count, limit


class _State:
    eval_limit = HARD_EVALS
    line_limit = HARD_EVALS * LINES_PER_EVAL
    evals = 0  # in the current flux calculation
    lines = 0
    depth = 0
    flux_calls = 0
    total_evals = 0
    max_evals = 0
    exceeded = 0
    installed = False
    last_evals = 0  # evaluations used by the most recently finished flux calculation
    calc_tap = None  # when a list: receives (args, kwargs) of every outermost calculate_partial_fluxes call
    tap = None  # when a list: receives (permeate composition argument, result) of driving-force evaluations
    hist = None
    call_limit = None  # when a number: bound on the driving-force evaluations of one public call (several flux calculations)
    call_evals = 0


S = _State()
_lines_hit = {}


def install_budget():
    if S.installed:
        return
    S.installed = True
    S.hist = {}
    from pyvaporation.pervaporation import Pervaporation

    orig_helper = Pervaporation.get_partial_fluxes_from_permeate_composition
    orig_calc = Pervaporation.calculate_partial_fluxes

    @functools.wraps(orig_helper)
    def helper(self, *a, **k):
        S.evals += 1
        S.total_evals += 1
        if S.evals > S.eval_limit:
            S.exceeded += 1
            raise BudgetExceeded("evaluation", S.evals, S.eval_limit)
        if S.call_limit is not None:
            S.call_evals += 1
            if S.call_evals > S.call_limit:
                S.exceeded += 1
                raise BudgetExceeded("public call", S.call_evals, S.call_limit)
        r = orig_helper(self, *a, **k)
        if S.tap is not None:
            y = k.get("permeate_composition", a[2] if len(a) > 2 else None)
            if len(S.tap) < 4:
                S.tap.append((y, r))
            else:  # keep the first two and the last two evaluations
                S.tap[2] = S.tap[3]
                S.tap[3] = (y, r)
        return r

    @functools.wraps(orig_calc)
    def calc(self, *a, **k):
        outer = S.depth == 0
        if outer:
            S.evals = 0
            S.lines = 0
            S.flux_calls += 1
            if S.calc_tap is not None:
                S.calc_tap.append((a, dict(k)))
        S.depth += 1
        try:
            return orig_calc(self, *a, **k)
        finally:
            S.depth -= 1
            if outer:
                S.last_evals = S.evals
                if S.evals > S.max_evals:
                    S.max_evals = S.evals
                b = S.evals.bit_length()
                S.hist[b] = S.hist.get(b, 0) + 1

    helper.__pvmon_original__ = orig_helper
    calc.__pvmon_original__ = orig_calc
    Pervaporation.get_partial_fluxes_from_permeate_composition = helper
    Pervaporation.calculate_partial_fluxes = calc
    _install_line_monitor()


def _install_line_monitor():
    mon = getattr(sys, "monitoring", None)
    if mon is None:
        return
    import pyvaporation

    root = os.path.dirname(os.path.abspath(pyvaporation.__file__))
    perv_dir = os.path.join(root, "pervaporation")
    tool = mon.PROFILER_ID
    cov = mon.COVERAGE_ID
    try:
        mon.use_tool_id(tool, "pvmon-budget")
        mon.use_tool_id(cov, "pvmon-coverage")
    except ValueError:
        return
    E = mon.events

    def on_start(code, offset):
        fn = code.co_filename
        if fn.startswith(perv_dir):
            mon.set_local_events(tool, code, E.LINE)
        return mon.DISABLE

    def on_line(code, line):
        S.lines += 1
        if S.lines > S.line_limit:
            S.exceeded += 1
            S.lines = 0
            raise BudgetExceeded("line", S.line_limit + 1, S.line_limit)

    def on_cov_line(code, line):
        fn = code.co_filename
        if fn.startswith(root):
            _lines_hit.setdefault(fn[len(root) + 1:], set()).add(line)
        return mon.DISABLE

    mon.register_callback(tool, E.PY_START, on_start)
    mon.register_callback(tool, E.LINE, on_line)
    mon.set_events(tool, E.PY_START)
    mon.register_callback(cov, E.LINE, on_cov_line)
    mon.set_events(cov, E.LINE)


@contextlib.contextmanager
def budget(evals):
    """temporarily lower the per-flux-calculation budget (used to abandon slow cases in
    workloads that are not about termination)"""
    old = (S.eval_limit, S.line_limit)
    S.eval_limit = evals
    S.line_limit = evals * LINES_PER_EVAL
    try:
        yield
    finally:
        S.eval_limit, S.line_limit = old


@contextlib.contextmanager
def call_budget(flux_calculations):
    """bound one public call that is entitled to `flux_calculations` flux calculations: a helper or model that keeps
    re-running the flux calculation (each run within its own budget) is stopped as well"""
    old = (S.call_limit, S.call_evals)
    S.call_limit = flux_calculations * HARD_EVALS
    S.call_evals = 0
    try:
        yield
    finally:
        S.call_limit, S.call_evals = old


@contextlib.contextmanager
def tap():
    """record the driving-force evaluations made inside the block (first two and last two)"""
    S.tap = []
    try:
        yield S.tap
    finally:
        S.tap = None


@contextlib.contextmanager
def calc_tap():
    """record the arguments of the flux calculations made inside the block"""
    S.calc_tap = []
    try:
        yield S.calc_tap
    finally:
        S.calc_tap = None


def bind_calc_args(a, k):
    """normalise recorded (args, kwargs) of calculate_partial_fluxes to a name -> value dict"""
    import inspect
    from pyvaporation.pervaporation import Pervaporation

    fn = Pervaporation.calculate_partial_fluxes
    fn = getattr(fn, "__pvmon_original__", fn)
    params = list(inspect.signature(fn).parameters)[1:]
    out = dict(zip(params, a))
    out.update(k)
    return out


def thread_burst(jobs, threads=4, rounds=30, seconds=1.5):
    """The same pure calls issued by several threads at once (a parameter sweep on a thread pool) must give what they give
    one after the other.  `jobs`: zero-argument callables returning a comparable value.  -> (mismatches, calls made):
    mismatches is a list of (job index, serial value, threaded value)."""
    import threading
    import time

    serial = [j() for j in jobs]
    bad, made = [], [0]
    lock = threading.Lock()
    old = sys.getswitchinterval()
    sys.setswitchinterval(1e-6)
    deadline = time.monotonic() + seconds
    start = threading.Barrier(threads)

    def work(tid):
        order = list(range(len(jobs)))
        order = order[tid % max(1, len(order)):] + order[: tid % max(1, len(order))]
        if tid % 2:
            order.reverse()
        start.wait()
        n = 0
        for _ in range(rounds):
            for i in order:
                try:
                    v = jobs[i]()
                except Exception as e:  # a job that succeeded serially must not fail in a thread
                    v = repr(e)
                n += 1
                if v != serial[i]:
                    with lock:
                        if len(bad) < 5:
                            bad.append((i, serial[i], v))
            if time.monotonic() > deadline:
                break
        with lock:
            made[0] += n

    try:
        ts = [threading.Thread(target=work, args=(t,)) for t in range(threads)]
        for t in ts:
            t.start()
        for t in ts:
            t.join()
    finally:
        sys.setswitchinterval(old)
    return bad, made[0]


def budget_stats():
    return {
        "flux_calculations": S.flux_calls,
        "driving_force_evaluations": S.total_evals,
        "max_evaluations_in_one_flux_calculation": S.max_evals,
        "budget_exceeded": S.exceeded,
    }


def eval_histogram():
    """log2-bucket histogram of evaluations per flux calculation"""
    return {f"<2^{b}": n for b, n in sorted((S.hist or {}).items())}


def lines_hit():
    return {k: sorted(v) for k, v in _lines_hit.items()}


def provoke_failures():
    """Every worker starts with a handful of library calls that are expected to raise (invalid specifications).  Global
    state left behind by a failed call (disabled validators, half-initialised module tables) would otherwise only be met
    by a workload that happens to fail first."""
    n = 0
    try:
        from pyvaporation.mixtures import Composition, Mixtures
        from pyvaporation.mixtures.uniquac_fitting import VLEPoint, VLEPoints, fit_vle
        from pyvaporation.components import Components
        from pyvaporation.membrane import Membrane
        from pyvaporation.permeance import Permeance
        from pyvaporation.pervaporation import Pervaporation
        from pyvaporation.diffusion_curve import DiffusionCurve

        data = VLEPoints(components=[Components.H2O, Components.EtOH],
                         data=[VLEPoint(composition=Composition(p=0.5, type="molar"), pressures=(10.0, 20.0), temperature=330.0)])
        calls = [
            lambda: fit_vle(data, method="no-such-method"),
            lambda: Composition(p=2.0, type="weight"),
            lambda: Permeance(value=1.0, units="SI").convert("kg/(m2*h*kPa)"),
            lambda: Pervaporation(Membrane("M"), Mixtures.H2O_EtOH).calculate_partial_fluxes(
                330.0, Composition(p=0.5, type="weight"), 1e-4, 300.0, 1.0, Permeance(0.01), Permeance(0.001)),
            lambda: DiffusionCurve(mixture=Mixtures.H2O_EtOH, membrane_name="M", feed_temperature=330.0, feed_compositions=[Composition(p=0.5, type="weight")]),
        ]
        for c in calls:
            try:
                c()
            except Exception:
                n += 1
    except Exception:
        pass
    return n
