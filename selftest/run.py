#!/usr/bin/env python3
"""Self-validation driver: apply each property-breaking patch to a scratch copy of /repo, run the quick
check(s) named in the patch header with PVMON_REPO pointing at the copy, expect exit 1.

    selftest/run.py [--tests] [--tier quick] [name ...]

Patch header lines:   # breaks: C01 C08      (checks expected to report a VIOLATION)
                      # note: free text
Nothing is ever applied to /repo itself; scratch copies live under $TMPDIR and are removed.
"""
import argparse, os, re, shutil, subprocess, sys, tempfile, time, json
from concurrent.futures import ThreadPoolExecutor
from pathlib import Path

V = Path(__file__).resolve().parent.parent
MUT = V / "selftest" / "mutants"


def run_one(patch, tier, with_tests, only_props=None):
    text = patch.read_text()
    m = re.search(r"^# breaks:\s*(.*)$", text, re.M)
    props = m.group(1).split() if m else []
    if only_props:
        props = [p for p in props if p in only_props]
    tmp = Path(tempfile.mkdtemp(prefix="pvmon_mut_"))
    out = {"mutant": patch.stem, "results": {}}
    try:
        repo = tmp / "repo"
        subprocess.run(["rsync", "-a", "--exclude", ".git", "--exclude", "__pycache__", "/repo/", str(repo)], check=True)
        cp = subprocess.run(["patch", "-p1", "-s", "-d", str(repo), "-i", str(patch)], capture_output=True, text=True)
        if cp.returncode != 0:
            out["error"] = "patch failed: " + cp.stdout + cp.stderr
            return out
        if with_tests:
            t = subprocess.run(["/venv/bin/python", "-m", "pytest", "-q", "-x", "-p", "no:cacheprovider", "--timeout=900"],
                               cwd=repo, capture_output=True, text=True)
            out["tests"] = t.stdout.strip().splitlines()[-1] if t.stdout.strip() else t.stderr[-200:]
        for p in props:
            env = dict(os.environ, PVMON_REPO=str(repo), PVMON_OUT=str(tmp / "out"), PVMON_WORKERS=os.environ.get("PVMON_MUT_WORKERS", "8"))
            t0 = time.time()
            c = subprocess.run([str(V / "check"), p, "--tier", tier], env=env, capture_output=True, text=True, cwd=V)
            viol = [l for l in c.stdout.splitlines() if l.startswith("VIOLATION")]
            out["results"][p] = {"exit": c.returncode, "violations": len(viol), "first": (viol[0][:260] if viol else c.stdout[-300:]),
                                 "wall": round(time.time() - t0, 1)}
    finally:
        shutil.rmtree(tmp, ignore_errors=True)
    return out


def main():
    ap = argparse.ArgumentParser()
    ap.add_argument("names", nargs="*")
    ap.add_argument("--tests", action="store_true", help="also confirm the repository's own suite still passes on the mutant")
    ap.add_argument("--tier", default="quick")
    ap.add_argument("--props", nargs="*")
    ap.add_argument("--jobs", type=int, default=2)
    a = ap.parse_args()
    patches = sorted(MUT.glob("*.diff"))
    if a.names:
        patches = [p for p in patches if any(n in p.stem for n in a.names)]
    missed = 0
    with ThreadPoolExecutor(max_workers=a.jobs) as ex:
        for res in ex.map(lambda p: run_one(p, a.tier, a.tests, a.props), patches):
            if "error" in res:
                print(f"{res['mutant']}: ERROR {res['error']}"); missed += 1; continue
            for p, r in res["results"].items():
                ok = r["exit"] == 1 and r["violations"] > 0
                missed += 0 if ok else 1
                print(f"{'CAUGHT' if ok else 'MISSED'} {res['mutant']:45s} {p} exit={r['exit']} {r['wall']}s tests={res.get('tests','-')}  {r['first'][:200]}")
            sys.stdout.flush()
    print("missed:", missed)
    return 1 if missed else 0


if __name__ == "__main__":
    sys.exit(main())
