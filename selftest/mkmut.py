#!/usr/bin/env python3
"""author a mutant patch:  mkmut.py <name> "<breaks>" "<note>" <repo-relative file> <<< 'OLD\n=====\nNEW'
(several edits to one file: separate blocks with a line '#####'; a block may start with '@@occurrence N' to pick the N-th match)"""
import difflib, sys
from pathlib import Path
name, breaks, note, rel = sys.argv[1:5]
src = Path("/repo") / rel
text = src.read_text()
new = text
for block in sys.stdin.read().split("\n#####\n"):
    old_s, new_s = block.split("\n=====\n")
    occ = 1
    if old_s.startswith("@@occurrence"):
        head, old_s = old_s.split("\n", 1)
        occ = int(head.split()[1])
    old_s = old_s.strip("\n"); new_s = new_s.strip("\n")
    assert new.count(old_s) >= occ, f"old text not found {occ} times: {old_s[:80]!r}"
    pos = -1
    for _ in range(occ):
        pos = new.index(old_s, pos + 1)
    new = new[:pos] + new_s + new[pos + len(old_s):]
diff = "".join(difflib.unified_diff(text.splitlines(True), new.splitlines(True), "a/" + rel, "b/" + rel))
out = Path(__file__).resolve().parent / "mutants" / f"{name}.diff"
out.write_text(f"# breaks: {breaks}\n# note: {note}\n" + diff)
print(out, len(diff.splitlines()), "lines")
