#!/usr/bin/env python3
"""author a mutant patch:  mkmut.py <name> "<breaks>" "<note>" <repo-relative file> <<< 'OLD\n=====\nNEW'
(several edits to one file: separate blocks with a line '#####')"""
import difflib, sys
from pathlib import Path
name, breaks, note, rel = sys.argv[1:5]
src = Path("/repo") / rel
text = src.read_text()
new = text
for block in sys.stdin.read().split("\n#####\n"):
    old_s, new_s = block.split("\n=====\n")
    old_s = old_s.strip("\n"); new_s = new_s.strip("\n")
    assert new.count(old_s) >= 1, f"old text not found: {old_s[:80]!r}"
    new = new.replace(old_s, new_s, 1)
diff = "".join(difflib.unified_diff(text.splitlines(True), new.splitlines(True), "a/" + rel, "b/" + rel))
out = Path(__file__).resolve().parent / "mutants" / f"{name}.diff"
out.write_text(f"# breaks: {breaks}\n# note: {note}\n" + diff)
print(out, len(diff.splitlines()), "lines")
