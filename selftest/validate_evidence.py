#!/usr/bin/env python3
"""validate MANIFEST.json and every evidence file against the given schemas (python3-vt has jsonschema)"""
import json, sys, pathlib
import jsonschema
V = pathlib.Path(__file__).resolve().parent.parent
ok = True
man = json.load(open(V / "MANIFEST.json"))
jsonschema.validate(man, json.load(open("/root/.vp/MANIFEST.schema.json")))
print("MANIFEST ok:", len(man["checks"]), "checks,", len(man.get("not_applicable", [])), "not applicable")
es = json.load(open("/root/.vp/EVIDENCE.schema.json"))
for c in man["checks"]:
    f = V / c["evidence_file"].replace("/verif/", "")
    if not f.exists():
        print("missing", f); ok = False; continue
    ev = json.load(open(f))
    try:
        jsonschema.validate(ev, es)
        assert ev["level"] == c["level_claimed"]["category"], "level mismatch"
        print("ok", f.name, ev["tier"], ev["coverage"]["evaluations"], ev["coverage"]["distinct_nontrivial"], ev["coverage"].get("verdict"))
    except Exception as e:
        print("INVALID", f, str(e)[:300]); ok = False
sys.exit(0 if ok else 1)
